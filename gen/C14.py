"""C14: comparison predicates.  Cases: (cmp NAME (l r) SS)."""
import itertools
from lib.sx import *

NAMES = ["equal", "less_than", "less_than_or_equal", "greater_than", "greater_than_or_equal"]
I64MIN, I64MAX = -2**63, 2**63 - 1

INTS = [0, 1, -1, 2, 7, -7, 2**53, 2**53 + 1, -(2**53) - 1, I64MAX, I64MAX - 1, I64MIN, I64MIN + 1, 4]
FLOATS = [0.0, -0.0, 1.0, -1.0, 0.5, 2.5, 4.0, 4.5, -7.0, 1e300, -1e300, 5e-324,
          float(2**53), float(2**63), -float(2**63), 9007199254740993.0, 0.1, 1/3]
FBITS = [0x7ff0000000000000, 0xfff0000000000000, 0x7ff8000000000000, 0xfff8000000000001, 0x7ff0000000000001]
ATOMS = ["a", "b", "ab", "abc", "", "A", "a b", " a", "é", "z", "日本", "zz", "\U0001F600", "Z", "10", "9",
         "a" * 40, "a" * 40 + "b", "a" * 39 + "b", "\u00e9" * 33 + "a"]

_TXT = {}
_EXPECT = {}
def _cmp_expect(l, opx, r):
    """what the documented order demands of `l op r` for two constants written in source text (None: kinds differ)"""
    def val(x):
        try: return ("n", float(x)) if ("." in x) else ("n", int(x))
        except ValueError: return ("a", x)
    (kl, vl), (kr, vr) = val(l), val(r)
    if kl != kr: return None
    return {"==": vl == vr, "<": vl < vr, "<=": vl <= vr, ">": vl > vr, ">=": vl >= vr}[opx]

def relations(cases, impl):
    for (case, tag), (out, res) in zip(cases, impl):
        if tag != "text-infix": continue
        want = _EXPECT.get(case)
        if want is None: continue
        got = "(ans (ss" in res
        if not res.startswith("(obs") or got != want:
            yield dict(case=case, tag=tag, why="a comparison written with an infix operator in source text %s, the documented order says it %s"
                       % ("succeeds" if got else "does not succeed", "holds" if want else "does not hold"), implementation=dict(result=res[:300]))

def consts():
    return ([integer(i) for i in INTS] + [flt(f) for f in FLOATS] + [fbits(b) for b in FBITS]
            + [atom(a) for a in ATOMS])

def nonconsts():
    return [NIL, ANON, cplx("f", atom("a")), lst([integer(1)]), EMPTY, fn("add", integer(1), integer(2)),
            var(9, "$U")]

def through_chain(c, depth, base):
    """bind c at the end of a chain of `depth` variables starting at id base;
    returns (operand term, bindings dict)"""
    d = {}
    ids = list(range(base, base + depth))
    for k, i in enumerate(ids):
        d[i] = var(ids[k + 1], "$V%d" % ids[k + 1]) if k + 1 < depth else c
    return var(ids[0], "$V%d" % ids[0]), d

def cases(tier, rng):
    cs = consts()
    out = []
    # exhaustive: all ordered pairs of constants, literally, for every predicate
    pairs = list(itertools.product(cs, cs))
    for (l, r) in pairs:
        for name in (NAMES if tier == "thorough" else [rng.choice(NAMES), rng.choice(NAMES)]):
            out.append(("(cmp %s (%s %s) (ss))" % (name, l, r), "literal"))
    # constants against non-constants, both orders
    for c in cs[::3] + [integer(1)]:
        for nc in nonconsts():
            name = rng.choice(NAMES)
            out.append(("(cmp %s (%s %s) (ss))" % (name, c, nc), "nonconst"))
            out.append(("(cmp %s (%s %s) (ss))" % (name, nc, c), "nonconst"))
    # through variable chains of length 1..4, either or both sides
    n = 3000 if tier == "quick" else 40000
    for _ in range(n):
        l = rng.choice(cs); r = rng.choice(cs)
        if rng.random() < 0.5:
            # bias to same-kind, nearby values
            k = rng.choice(["int", "float", "atom", "mixed"])
            if k == "int":
                a = rng.choice(INTS); b = a + rng.choice([-1, 0, 1, 0])
                b = min(max(b, I64MIN), I64MAX)
                l, r = integer(a), integer(b)
            elif k == "float":
                a = rng.choice(FLOATS); l, r = flt(a), flt(a * rng.choice([1, 1, -1, 2]))
            elif k == "atom":
                a = rng.choice(ATOMS); l, r = atom(a), atom(a + rng.choice(["", "", "a", " "]))
            else:
                a = rng.choice(INTS); l, r = integer(a), flt(float(a))
                if rng.random() < 0.5: l, r = r, l
        d = {}
        lt, rt = l, r
        mode = rng.randrange(4)
        if mode & 1:
            lt, dl = through_chain(l, rng.randint(1, 4), 1); d.update(dl)
        if mode & 2:
            rt, dr = through_chain(r, rng.randint(1, 4), 6); d.update(dr)
        if rng.random() < 0.05:
            # a chain that ends at an unbound variable, or at a non-constant
            end = rng.choice(nonconsts())
            lt, dl = through_chain(end, rng.randint(1, 3), 1); d.update(dl)
        name = rng.choice(NAMES)
        out.append(("(cmp %s (%s %s) %s)" % (name, lt, rt, ss_from(d)), "chain" if d else "literal"))
    # comparisons written in SOURCE TEXT with infix operators (parse_rule -> check_infix -> get_left_and_right), operands
    # with non-ASCII characters on either side, unicode variable names bound just before
    from gen import progs
    TXT_ATOMS = ["a", "b", "ab", "z", "Zo\u00eb", "\u6e0b\u8c37", "\u00e9t\u00e9", "\u65e5\u672c", "\U0001F600"]
    TXT_NUMS = ["0", "1", "-1", "7", "180", "2.5", "4.0", "-7.5"]
    OPS = {"==": "eq", "<": "lt", "<=": "le", ">": "gt", ">=": "ge"}
    vals = TXT_ATOMS + TXT_NUMS
    pairs_t = list(itertools.product(vals, vals))
    if tier == "quick": pairs_t = [p for p in pairs_t if rng.random() < 0.35]
    for (l, r) in pairs_t:
        for opx in (OPS if tier == "thorough" else [rng.choice(list(OPS))]):
            _TXT[len(out)] = None
            body = "%s %s %s" % (l, opx, r)
            case = "(hist (kb-text %s) %s (ask 0))" % (S("c :- %s." % body), progs.build_text(0, "c"))
            _EXPECT[case] = _cmp_expect(l, opx, r)
            out.append((case, "text-infix"))
    for name in ["$Gr\u00f6\u00dfe", "$\u00c5", "$X"]:
        for (v, opx, r) in [("180", ">=", "180"), ("5", "<", "7"), ("Zo\u00eb", "==", "Zo\u00eb"), ("a", ">", "b")]:
            case = "(hist (kb-text %s) %s (ask 0))" % (S("c :- %s = %s, %s %s %s." % (name, v, name, opx, r)), progs.build_text(0, "c"))
            _EXPECT[case] = _cmp_expect(v, opx, r)
            out.append((case, "text-infix"))
    # malformed: wrong number of operands (outside the claim; model and code must still agree)
    for name in NAMES:
        out.append(("(cmp %s (%s) (ss))" % (name, integer(1)), "arity"))
        out.append(("(cmp %s () (ss))" % name, "arity"))
        out.append(("(cmp %s (%s %s %s) (ss))" % (name, integer(1), integer(2), integer(0)), "arity"))
    return out

RULE = ("all ordered pairs of a 53-constant universe (integer extremes, 2^53+-1, +-0.0, fractions, "
        "subnormal, infinities, NaNs, unicode atoms, atoms with spaces) literally; constants against "
        "non-constants; random pairs through variable chains of length 1-4 on either side; wrong arity; comparisons written "
        "with infix operators in source text (parse_rule), atoms with 2-, 3- and 4-byte characters and numbers on either side, "
        "unicode variable names, checked against the documented order. "
        "Non-trivial = the predicate succeeds, or fails on two constants of comparable kind.")

def nontrivial(case, tag, result):
    if tag == "arity": return False
    if tag == "text-infix": return _EXPECT.get(case) is not None
    if "some" in result: return True
    c = parse(case)
    kinds = [t[0] if isinstance(t, list) else t for t in c[2]]
    num = {"i", "f"}
    return tag in ("literal", "chain") and ((kinds[0] in num and kinds[1] in num) or kinds[0] == kinds[1] == "a")
