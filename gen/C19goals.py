"""C19 (goal and rule level): canonical goal / rule text parses to the AST it denotes, and
the AST prints back as that text.

The canonical text of an AST is produced HERE by a ten-line printer (`canon`), independent of
the crate and of the model.  Relations checked on the implementation's own results:
   R1  Display(g)            == canon(g)
   R2  generate_goal(canon g) == Ok(g)          (resp. parse_rule / show-rule for rules)
so that parse(print(g)) = g and print(parse(text)) = text for every canonical text.
The correspondence (model vs implementation) runs on the same cases plus non-canonical
ASTs for the printers (empty operators, wrong arities: the Display panics)."""
import itertools
from lib.sx import *
from gen.goals_common import *

META = dict(assumptions=[
    "leaf goals (calls, built-ins, infix unification, not(...), time(...)) are parsed by parse_subgoal, which is not part "
    "of this model (parameter of the model; table of the real crate's answers in each case); the theorems assume that "
    "each canonical leaf text parses back to its leaf and is neutral for the tokenizer",
])

X0, Y0 = var(0, "$X"), var(0, "$Y")
A1 = call(cplx("a", integer(1)))
B1 = call(cplx("b", integer(1)))
# (AST, canonical text) of leaf goals
LEAVES = [
    (A1, "a(1)"),
    (bip("unify", X0, integer(1)), "$X = 1"),
    (bip0("!"), "!"),
    (call(cplx("p", X0, Y0)), "p($X, $Y)"),
    (bip0("fail"), "fail"),
    (bip0("nl"), "nl"),
    (op("not", A1), "not(a(1))"),
    (op("not", bip("unify", X0, integer(2))), "not($X = 2)"),
    (bip("less_than", X0, integer(4)), "less_than($X, 4)"),
    (bip("print", X0, atom("b")), "print($X, b)"),
    (call(cplx("q", lst([integer(1), integer(2)]))), "q([1, 2])"),
    (call(cplx("r", lst([var(0, "$H")], var(0, "$T")))), "r([$H | $T])"),
    (op("time", B1), "time(b(1))"),
    (bip("unify", X0, atom("b")), "$X = b"),
    (call(cplx("u", cplx("f", integer(1), integer(2)), atom("g"))), "u(f(1, 2), g)"),
    # infix unification with parentheses / brackets on BOTH sides of the operator
    (bip("unify", cplx("f", X0), cplx("f", atom("a"))), "f($X) = f(a)"),
    (bip("unify", cplx("pair", X0, Y0), cplx("pair", integer(1), integer(2))), "pair($X, $Y) = pair(1, 2)"),
    (bip("unify", lst([cplx("f", X0)], var(0, "$T")), lst([cplx("f", atom("a")), cplx("g", atom("b"))])), "[f($X) | $T] = [f(a), g(b)]"),
    (bip("unify", cplx("f", lst([X0])), X0), "f([$X]) = $X"),
    # a goal without arguments: Display writes go(), which must parse back
    (call(cplx("go")), "go()"),
    # non-ASCII letters in functors and arguments (character positions and byte positions differ), long atoms
    (call(cplx("ville", atom("\u00e9"), atom("bc"))), "ville(\u00e9, bc)"),
    (call(cplx("p\u00e8re", X0, Y0)), "p\u00e8re($X, $Y)"),
    (call(cplx("capital", atom("Qu\u00e9bec"), atom("Qu\u00e9bec City"))), "capital(Qu\u00e9bec, Qu\u00e9bec City)"),
    # (CJK only in arguments: the tokenizer's letters for functors are Latin, Greek and Cyrillic - letter_number_hyphen)
    (call(cplx("city", atom("\u6771\u4eac"), X0)), "city(\u6771\u4eac, $X)"),
    (op("not", call(cplx("p\u00e8re", atom("\u00c9ric"), X0))), "not(p\u00e8re(\u00c9ric, $X))"),
    (bip("unify", X0, atom("Zo\u00eb")), "$X = Zo\u00eb"),
    (bip("unify", cplx("f", atom("\u03b1\u03b2\u03b3")), X0), "f(\u03b1\u03b2\u03b3) = $X"),
    (call(cplx("a_functor_of_more_than_thirty_two_characters_in_all", atom("an_atom_of_more_than_thirty_two_characters_too"), X0)),
     "a_functor_of_more_than_thirty_two_characters_in_all(an_atom_of_more_than_thirty_two_characters_too, $X)"),
]

# goal trees: ("leaf", k) | ("and", [..]) | ("or", [..])
def ast(t):
    if t[0] == "leaf": return LEAVES[t[1]][0]
    return op(t[0], *[ast(x) for x in t[1]])

def canon(t):
    """the canonical text: conjunction `, `, disjunction `; `; a disjunction inside anything and a
    conjunction inside a conjunction are parenthesised"""
    if t[0] == "leaf": return LEAVES[t[1]][1]
    parts = []
    for x in t[1]:
        s = canon(x)
        if x[0] == "or" or (x[0] == "and" and t[0] == "and"): s = "(" + s + ")"
        parts.append(s)
    return (", " if t[0] == "and" else "; ").join(parts)

def trees_exhaustive(nleaf, depth):
    level = [("leaf", k) for k in range(nleaf)]
    allt = list(level)
    for _ in range(depth):
        new = []
        for kind in ("and", "or"):
            for a, b in itertools.product(allt, repeat=2):
                new.append((kind, [a, b]))
        allt = allt + [t for t in new if t not in allt]
    return allt

def rand_tree(rng, depth):
    if depth <= 0 or rng.random() < 0.3:
        return ("leaf", rng.randrange(len(LEAVES)))
    return (rng.choice(["and", "or"]), [rand_tree(rng, depth - 1) for _ in range(rng.randint(2, 4))])

HEADS = [(cplx("h", X0), "h($X)"), (cplx("k", atom("a"), integer(1)), "k(a, 1)"),
         (cplx("m", lst([var(0, "$H")], var(0, "$T")), Y0), "m([$H | $T], $Y)")]

EXPECT = {}      # case line -> (expected result, what)

def cases(tier, rng):
    quick = tier == "quick"
    EXPECT.clear()
    trees = trees_exhaustive(3, 2)                       # 3 + 18 + 882
    trees += [("leaf", k) for k in range(3, len(LEAVES))]
    trees += [(kind, [("leaf", i), ("leaf", j), ("leaf", k)]) for kind in ("and", "or")
              for i, j, k in itertools.product(range(3), repeat=3)]
    for _ in range(1500 if quick else 30000):
        trees.append(rand_tree(rng, rng.randint(1, 5)))
    for d in (10, 40) if quick else (10, 40, 150):
        t = ("leaf", 0)
        for i in range(d): t = ("and" if i % 2 else "or", [("leaf", i % 3), t] if i % 3 else [t, ("leaf", 1)])
        trees.append(t)
    plain, items = [], []
    seen = set()
    for t in trees:
        g, txt = ast(t), canon(t)
        if txt in seen: continue
        seen.add(txt)
        c = "(show-goal %s)" % g
        plain.append((c, "show-canonical")); EXPECT[c] = ("(ok %s)" % S(txt), "R1")
        items.append(("generate-goal", txt, "parse-canonical", "(ok %s)" % g))
    # rules
    rule_trees = [None] + trees_exhaustive(3, 1) + [rand_tree(rng, rng.randint(1, 4)) for _ in range(300 if quick else 5000)]
    for (h, htxt) in HEADS:
        for t in rule_trees:
            if t is None:
                r, txt = rule(h), htxt + "."
            else:
                r, txt = rule(h, ast(t)), htxt + " :- " + canon(t) + "."
            c = "(show-rule %s)" % r
            plain.append((c, "show-rule-canonical")); EXPECT[c] = ("(ok %s)" % S(txt), "R1")
            items.append(("parse-rule", txt, "parse-rule-canonical", "(ok %s)" % r))
    # the listings format_kb (keys sorted, rules in insertion order, each through Display) and format_ss, with their expected text
    kb_rules = []
    for (h, htxt) in HEADS:
        for t in rule_trees[:40]:
            kb_rules.append((rule(h), htxt + ".") if t is None else (rule(h, ast(t)), htxt + " :- " + canon(t) + "."))
    for _ in range(40 if quick else 600):
        pick = [rng.choice(kb_rules) for _ in range(rng.randint(0, 7))]
        c = "(format-kb (kb %s))" % " ".join(r for r, _ in pick)
        by_key = {}
        for r, txt in pick:
            hd = parse(r)[1]
            by_key.setdefault("%s/%d" % (unS(hd[1][1]), len(hd) - 2), []).append(txt)
        exp = "_____ Contents of Knowledge Base _____\n" + "".join(k + "\n" + "".join("\t" + t + "\n" for t in by_key[k]) for k in sorted(by_key)) + "______________________________________"
        plain.append((c, "format-kb")); EXPECT[c] = ("(ok %s)" % S(exp), "R1")
    for ent in ([], [None], [None, atom("a"), None, var(0, "$X"), lst([integer(1), integer(2)], var(3, "$T")), cplx("f", flt(2.5))], [atom("x")] * 12):
        c = "(format-ss %s)" % ss(ent)
        plain.append((c, "format-ss"))
    # the defects found in round 1, by name (also in corpus/C19goals/)
    U1, U2, U3 = (bip("unify", X0, integer(k)) for k in (1, 2, 3))
    named = [
        ("parse-rule", "p($X) :- $X = 1, $X = 2; $X = 3.", rule(cplx("p", X0), op("or", op("and", U1, U2), U3))),
        ("parse-rule", "r($X) :- ($X = 1; $X = 2), $X = 2.", rule(cplx("r", X0), op("and", op("or", U1, U2), U2))),
        ("generate-goal", "a(1), ((b(1); a(1)), $X = 1)", op("and", A1, op("and", op("or", B1, A1), U1))),
        ("parse-rule", "p :- go, a(1).", rule(cplx("p"), op("and", call(cplx("go")), A1))),
        ("parse-rule", "p() :- go(), a(1).", rule(cplx("p"), op("and", call(cplx("go")), A1))),
        ("generate-goal", "((a(1)))", A1),
        ("generate-goal", "(a(1), b(1)), a(1)", op("and", op("and", A1, B1), A1)),
    ]
    for (o, txt, expect) in named:
        items.append((o, txt, "named-regression", "(ok %s)" % expect))
        shown = "(show-rule %s)" % expect if o == "parse-rule" else "(show-goal %s)" % expect
        plain.append((shown, "named-regression-show"))
        if txt != "((a(1)))": EXPECT[shown] = ("(ok %s)" % S(txt), "R1")
    # zero-arity facts are accepted
    for name in ("b", "bc", "bcd", "long_name"):
        items.append(("parse-rule", name + ".", "zero-arity", "(ok %s)" % rule(cplx_raw(atom(name)))))
        plain.append(("(show-rule %s)" % rule(cplx_raw(atom(name))), "show-zero-arity"))
    # printers on ASTs that are not canonical (correspondence only)
    odd = [op("and"), op("or"), op("and", A1), op("or", A1), op("time"), op("not"), op("not", A1, B1),
           op("time", op("and", A1, B1)), op("not", op("or", A1, B1)), "gnil", op("and", "gnil", A1),
           bip("unify"), bip("unify", X0), bip("unify", X0, Y0, X0), bip("print"), bip0("unify"), bip0("anything"),
           bip("nl", X0), op("and", op("and", A1), B1), op("or", op("or"), B1), op("and", op("time", A1), op("not", B1)),
           call(atom("notcomplex")), call(integer(3)), call(cplx_raw())]
    for g in odd:
        plain.append(("(show-goal %s)" % g, "show-odd"))
        plain.append(("(show-rule %s)" % rule(cplx("h", X0), g), "show-rule-odd"))
    for name in ("none", "unify", "equal", "gt", "lt", "ge", "le", "plus", "minus", "multiply", "divide"):
        plain.append(("(show-infix %s)" % name, "show-infix"))
    out = []
    tabled = with_tables([(o, s, tag) for (o, s, tag, _) in items])
    for (c, tag), (_, _, _, exp) in zip(tabled, items):
        EXPECT[c] = (exp, "R2")
        out.append((c, tag))
    return out + plain

RULE = ("Canonical goal trees over 15 leaf goals (calls, `=`, cut, fail, nl, not(..), time(..), comparison, print, list and "
        "nested-term arguments): all And/Or trees of depth <= 2 and arity 2 over 3 leaves (903), all flat And/Or of arity 3, "
        "random trees of depth <= 5 and arity <= 4, alternating chains of depth 10-40 (150 thorough); rules with 3 heads "
        "over the same bodies, facts, zero-arity facts.  For each tree g with canonical text t (printed by the generator's own "
        "printer): show-goal g and generate-goal t (show-rule / parse-rule for rules), on the implementation and on the "
        "model.  Relations on the implementation: Display(g) = t and parse(t) = Ok(g).  Plus 24 non-canonical ASTs "
        "(empty / unary operators, unify with 0,1,3 terms, Nil inside And...) through the printers.  Non-trivial = the "
        "tree has at least one operator nested in another operator.")

def nontrivial(case, tag, result):
    return tag in ("parse-canonical", "show-canonical", "parse-rule-canonical", "show-rule-canonical") and \
        ("(op and (op" in case or "(op or (op" in case or "(" in (text_of_case(case) or "").replace("(1)", "").replace("($", ""))

def relations(cases, impl):
    for (case, tag), (out, res) in zip(cases, impl):
        e = EXPECT.get(case)
        if e is None: continue
        exp, what = e
        if res != exp:
            yield dict(case=case, tag=tag, cases=[case],
                       why=("Display does not produce the canonical text" if what == "R1"
                            else "the canonical text does not parse to the AST it denotes"),
                       implementation=dict(result=res), specification=dict(result=exp), readable=readable(case))

def describe(case):
    return readable(case)
