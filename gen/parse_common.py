"""Shared generators for the parser properties (C18 term level, C20): strings over the syntax
alphabet, grammar-based term / goal texts, mutations."""
import itertools
from lib.sx import S, unS

ALPHA = list('ab10.-+$_X()[]|,;"\\=<>*/ %')
# letters / white space outside ASCII on which the model's Unicode tables are exact
UNI = ['é', 'ß', 'Ω', 'λ', 'Ж', 'я', '山', '語', '\u00a0', '\u3000', '\u2028', '\u0085', '\t', '×', '÷',
       # characters whose LOW BYTE is a punctuation code: ( ) , " [ , \\ ]
       'Ш', 'Щ', 'Ь', 'Т', 'ś', '本', 'Ŝ', 'ŝ']

TERM_OPS = ["parse-term", "parse-args", "parse-list", "parse-complex", "parse-function",
            "parse-query"]
GOAL_OPS = ["parse-subgoal"]
SCAN_OPS = ["check-infix", "check-arith-infix"]
ALL_OPS = TERM_OPS + GOAL_OPS + SCAN_OPS

def case(op, s):
    return "(%s %s)" % (op, S(s))

def uncase(c):
    op, a = c[1:-1].split(" ")[:2]
    return op, unS(a)

def exhaustive(n):
    yield ""
    for k in range(1, n + 1):
        for t in itertools.product(ALPHA, repeat=k):
            yield "".join(t)

# ---------------- grammar ----------------
ATOMS = ["a", "b", "abc", "Argon", "hello world", "x1", "a_b", "é", "山", "Жук", "ab.c", "-", "+", "a-b", "Шура", "Тула", "日本", "Щи", "śa", "Ьх",
         "%", "*", "/", "<", "=", ";", "_"]
VARS = ["$X", "$Y", "$Tail", "$x1", "$Ω", "$山"]
ODD_DOLLAR = ["$", "$1", "$10", "$_x", "$ X", "$$"]
FUNCS = ["add", "subtract", "multiply", "divide", "join"]
FUNCTORS = ["f", "g", "foo", "loves", "é", "print", "append", "unify", "not", "time", "count", "nl", "fail",
            "less_than", "functor", "include", "exclude", "print_list", "equal", "greater_than_or_equal", "h i"]

def gen_int(rng, signed=True):
    r = rng.random()
    if r < 0.5: body = str(rng.randint(0, 99))
    elif r < 0.7: body = str(rng.randint(0, 10**9))
    elif r < 0.8: body = rng.choice(["9223372036854775807", "9223372036854775808", "0", "007", "00",
                                     "18446744073709551616", "9223372036854775809"])
    else: body = "".join(rng.choice("0123456789") for _ in range(rng.randint(1, 22)))
    sign = rng.choice(["", "", "", "-", "-", "+"]) if signed else ""
    return sign + body

def gen_float(rng, signed=True):
    r = rng.random()
    ip = "".join(rng.choice("0123456789") for _ in range(rng.randint(0, 6 if r < 0.8 else 25)))
    fp = "".join(rng.choice("0123456789") for _ in range(rng.randint(0, 6 if r < 0.8 else 30)))
    body = ip + "." + fp
    sign = rng.choice(["", "", "", "-", "-", "+"]) if signed else ""
    return sign + body

def gen_term(rng, depth=2, ctx="any"):
    """text of a (mostly) canonical term"""
    r = rng.random()
    if depth <= 0 or r < 0.45:
        k = rng.random()
        if k < 0.25: return rng.choice(ATOMS)
        if k < 0.40: return gen_int(rng)
        if k < 0.52: return gen_float(rng)
        if k < 0.70: return rng.choice(VARS)
        if k < 0.76: return "$_"
        if k < 0.80: return rng.choice(ODD_DOLLAR)
        if k < 0.88: return '"%s"' % rng.choice(["a", "a, b", "x(y", "1", " ", "[", "a\\", "-5", ""])
        if k < 0.94: return "\\" + rng.choice([",", "|", "\\", "5", "(", "[", '"', "a", " "])
        return rng.choice(["a\\, b", "a\\|b", "1\\,2", "x\\", "\\(a\\)"])
    if r < 0.62:
        n = rng.randint(0, 3)
        elems = [gen_term(rng, depth - 1) for _ in range(n)]
        body = ", ".join(elems)
        if n > 0 and rng.random() < 0.3:
            body += " | " + rng.choice(VARS + ["$_", "a", "[b]"])
        return "[" + body + "]"
    if r < 0.80:
        n = rng.randint(0, 3)
        return rng.choice(FUNCTORS) + "(" + ", ".join(gen_term(rng, depth - 1) for _ in range(n)) + ")"
    if r < 0.90:
        n = rng.randint(1, 3)
        return rng.choice(FUNCS) + "(" + ", ".join(gen_term(rng, depth - 1) for _ in range(n)) + ")"
    op = rng.choice(["+", "-", "*", "/"])
    return gen_term(rng, depth - 1) + " " + op + " " + gen_term(rng, depth - 1)

def gen_args(rng, depth=2):
    n = rng.randint(1, 4)
    sep = rng.choice([", ", ",", " , ", ", "])
    return sep.join(gen_term(rng, depth) for _ in range(n))

def gen_goal(rng, depth=2):
    r = rng.random()
    if r < 0.1: return rng.choice(["!", "fail", "nl", "a", "foo", "é"])
    if r < 0.4:
        op = rng.choice(["=", "==", "<", ">", "<=", ">="])
        return gen_term(rng, depth - 1) + " " + op + " " + gen_term(rng, depth - 1)
    if r < 0.55 and depth > 0:
        return rng.choice(["not", "time"]) + "(" + gen_goal(rng, depth - 1) + ")"
    return rng.choice(FUNCTORS) + "(" + gen_args(rng, depth - 1) + ")"

def mutate(rng, s, k=None):
    s = list(s)
    for _ in range(k or rng.randint(1, 3)):
        r = rng.random()
        pool = ALPHA if rng.random() < 0.85 else UNI
        if r < 0.35 and s:
            del s[rng.randrange(len(s))]
        elif r < 0.7:
            s.insert(rng.randint(0, len(s)), rng.choice(pool))
        elif s:
            s[rng.randrange(len(s))] = rng.choice(pool)
    return "".join(s)

def random_string(rng, maxlen=12):
    n = rng.randint(5, maxlen)
    return "".join(rng.choice(ALPHA if rng.random() < 0.93 else UNI) for _ in range(n))

FLOAT_EDGE = ["1.", ".1", "-.1", "+1.", ".", "-.", "1..", "1.2.3", "0.1", "0.3", "2.5", "-0.0", "-0.", "1.7",
              "0.1000000000000000055511151231257827", "179769313486231570000000000000000000000.5",
              "0.000000000000000000000000000000000001", "9007199254740993.0", "9007199254740992.5",
              "4.9406564584124654e-324".replace("e-324", ""), "123456789012345678901234567890.123456789",
              "0.30000000000000004", "5e-324", "1\\e5.", ".1\\e5", "1.\\e5", "1.\\e-5", "1.5\\E+3", "\\i\\n\\f", "1.\\e400",
              "1.\\e-400", "2.2250738585072011\\e-308", "1.\\e", "1.\\e+", "\\n\\a\\n", "\\+.5", "1 .5", "1. 5"]

# number-like texts that Rust's float parser accepts but the crate's classifier does not treat as numbers (and the reverse)
EXPONENT_LIKE = ["1e5", "2E3", "-4e2", "6.02e23", "+inf", "-inf", "inf", "nan", "NaN", "infinity", "9223372036854775808", "-9223372036854775809",
                 "1e400", "1e-400", "0x10", "1_000", "1.5e3", "1.e3", ".5e1", "+5", "+5.5"]
