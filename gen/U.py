"""scratch: model-vs-implementation agreement on the unification universe (not a property)"""
import itertools
from gen.universe import *
def cases(tier, rng):
    u = universe(); out = []
    for pr in priors():
        for a, b in itertools.product(u, u):
            if rng.random() < (0.15 if tier == "quick" else 1.0):
                out.append((useq_case(pr, a, b), "pair"))
    for f in FUNCS:
        for t in u[:40] + FUNCS:
            for pr in priors()[:6]:
                out.append((useq_case(pr, f, t), "fn")); out.append((useq_case(pr, t, f), "fn"))
    return out
RULE = "scratch"
def nontrivial(case, tag, result): return "some" in result
