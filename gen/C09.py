"""C09: the anonymous variable matches anything and never binds."""
import itertools
from lib.sx import *
from lib import obs
from gen.universe import *

def mask_variants(t, rng, k=3):
    """copies of term text t (wire format) with some sub-terms replaced by `anon`"""
    p = parse(t)
    outs = []
    def subterm_paths(x, path):
        res = []
        if isinstance(x, list):
            tag = x[0]
            if tag == "c":
                for i in range(2, len(x)): res.append(path + [i]); res += subterm_paths(x[i], path + [i])
            elif tag == "l":
                if x[1] != "nil":
                    res.append(path + [1]); res += subterm_paths(x[1], path + [1])
                res += subterm_paths(x[2], path + [2])
        return res
    paths = subterm_paths(p, [])
    if not paths: return []
    for _ in range(k):
        import copy
        q = copy.deepcopy(p)
        for pa in rng.sample(paths, min(len(paths), rng.randint(1, 2))):
            cur = q
            ok = True
            for i in pa[:-1]:
                if not isinstance(cur, list): ok = False; break
                cur = cur[i]
            if ok and isinstance(cur, list): cur[pa[-1]] = "anon"
        outs.append(obs.to_text(q))
    return outs

def prior_case(p):
    return "(useq (ss) %s)" % " ".join("(%s %s)" % q for q in p) if p else "(useq (ss))"

def cases(tier, rng):
    u = universe() + FUNCS + [NIL, cplx_raw(), node(atom("a"), NIL, 1, False), fn("nosuch", atom("a")),
                              fn("add", atom("notanumber")), var(7, "$Unbound")]
    out = []
    pr = priors()
    # (a) x = $_ and $_ = x for every x, under every prior
    for p in pr:
        for t in u:
            out.append((useq_case(p, t, ANON), "anon-right"))
            out.append((useq_case(p, ANON, t), "anon-left"))
        out.append((prior_case(p), "prior"))
    # (b) sequences with and without their `x = $_` steps
    uu = universe()
    nseq = 1500 if tier == "quick" else 20000
    for _ in range(nseq):
        k = rng.randint(2, 5)
        seq = []
        for _ in range(k):
            if rng.random() < 0.4:
                x = rng.choice([X, Y, Z, rng.choice(uu)])
                seq.append((x, ANON) if rng.random() < 0.5 else (ANON, x))
            else:
                seq.append((rng.choice([X, Y, Z, rng.choice(uu)]), rng.choice(uu)))
        stripped = [p for p in seq if ANON not in p]
        full = "(useq (ss) %s)" % " ".join("(%s %s)" % p for p in seq)
        strp = "(useq (ss) %s)" % " ".join("(%s %s)" % p for p in stripped) if stripped else "(useq (ss))"
        out.append((full, "seq-with-anon")); out.append((strp, "seq-stripped"))
    # (c) a term against a copy of itself with sub-terms (arguments, list elements, tails, nested) masked by $_
    for p in pr[:8]:
        for t in uu:
            for m in mask_variants(t, rng, 2 if tier == "quick" else 4):
                out.append((useq_case(p, t, m), "masked-right"))
                out.append((useq_case(p, m, t), "masked-left"))
    # (c') the same for big terms (depth <= 5, lists of up to 12 elements, wide complex terms, ids up to 46 and ids that collide
    #      modulo 64 / 256): a big term against copies of itself masked by $_ at 1-2 positions
    from gen import C06 as _c06
    for _ in range(60 if tier == "quick" else 1500):
        ids = rng.choice([[1, 2, 3, 4, 5, 6], [21, 22, 23, 24, 25, 26], [3, 5, 67, 69, 131, 133], [2, 258, 514, 66, 130, 6]])
        t = _c06.big_term(rng, ids, rng.choice([3, 4, 5]))
        if "anon" in t: continue          # a $_ already inside t could end up in a binding of the prior
        for m in mask_variants(t, rng, 2):
            out.append((prior_case([]), "prior"))
            out.append((useq_case([], t, m), "masked-right"))
            out.append((useq_case([], m, t), "masked-left"))
    # (c'') wide complex terms (arity 7-12) with $_ opposite constants, variables and compound terms at every position
    consts = [atom("a"), integer(1), flt(2.5), atom("b"), lst([atom("c")]), cplx("f", atom("a")), X, EMPTY, atom("d"), integer(7), atom("e"), atom("g")]
    for ar in (7, 8, 9, 12):
        full = cplx("rec", *consts[:ar])
        for pos in range(ar):
            m = cplx("rec", *[ANON if k == pos else consts[k] for k in range(ar)])
            out.append((prior_case([]), "prior"))
            out.append((useq_case([], full, m), "masked-right")); out.append((useq_case([], m, full), "masked-left"))
        m2 = cplx("rec", *[ANON if k % 2 else consts[k] for k in range(ar)])
        out.append((useq_case([], full, m2), "masked-right")); out.append((useq_case([], m2, full), "masked-left"))
    # (e) through the solver: a predicate of 9 / 20 clauses with constant first arguments called with $_ in each argument position
    from gen import progs
    for nclauses in (3, 8, 9, 20):
        facts = [progs.fact("planet", atom("p%d" % k), integer(k)) for k in range(nclauses)]
        for q in ([atom("planet"), ANON, var(0, "$N")], [atom("planet"), var(0, "$P"), ANON], [atom("planet"), ANON, ANON], [atom("planet"), ANON, integer(2)]):
            out.append((progs.single_query_case(facts, q, nclauses + 2), "solver-anon"))
    # (d) a term t in which the variable v occurs exactly once, against an instance g of t (v replaced by a fresh
    #     variable or a ground term, every other variable by a ground term): the same with v replaced by $_ must
    #     give the same bindings except the one of (or to) v - the other positions still bind
    W = var(11, "$W")
    ground = [atom("a"), integer(1), lst([atom("b")]), cplx("f", atom("a")), EMPTY]
    for t in uu:
        for v in VARS:
            if t.count(v) != 1 or t == v: continue
            for _ in range(2 if tier == "quick" else 6):
                sub = {w: rng.choice(ground) for w in VARS}
                sub[v] = W if rng.random() < 0.6 else rng.choice(ground)
                g = t
                for w in VARS: g = g.replace(w, "@%d@" % VARS.index(w))
                for w in VARS: g = g.replace("@%d@" % VARS.index(w), sub[w])
                m = t.replace(v, ANON)
                out.append((useq_case([], t, g), "inst-full-left")); out.append((useq_case([], m, g), "inst-masked-left:" + v))
                out.append((useq_case([], g, t), "inst-full-right")); out.append((useq_case([], g, m), "inst-masked-right:" + v))
    return out

RULE = ("(a) x = $_ and $_ = x for every x of the 119-term universe plus function terms and malformed terms, under 18 "
        "prior substitutions; (b) random sequences of 2-5 unifications in which about 40% of the steps have $_ on one side, "
        "each paired with the same sequence without those steps; (c) every universe term against copies of itself with "
        "sub-terms (arguments, list elements, list tails, nested terms) replaced by $_ (also big terms: depth <= 5, 12-element lists, colliding ids); (d) every universe term t in which a variable v occurs exactly once "
        "against an instance of t (v replaced by a fresh variable or a ground term, the other variables by ground terms), in both orders, and the same with v replaced by $_. "
        "Relations on the implementation's results: (d) the bindings are those of the run with v, minus the binding of (or to) v; (a),(c) succeed and return the prior set unchanged; (b) both sequences give the same result; no result "
        "binds a variable to $_. (c'') complex terms of arity 7-12 with $_ at every position; (e) through the solver: predicates of 3-20 facts called with $_ in each argument position (one answer per clause). "
        "Non-trivial = the case contains $_ and the prior or the sequence binds something.")

def nontrivial(case, tag, result):
    return "anon" in case and "(v " in result

def _split(case):
    c = parse(case)
    return c[2:]

REL_STATS = {}
def relations(cases, impl):
    REL_STATS.clear()
    res_of = {}
    for (case, tag), (out, res) in zip(cases, impl):
        res_of[case] = res
    prev = None
    for idx, ((case, tag), (out, res)) in enumerate(zip(cases, impl)):
        r = obs.parse_result(res)
        if r[0] == "some" and obs.binds_anon(r[1]):
            yield dict(case=case, tag=tag, why="a variable is bound to $_", implementation=dict(result=res))
            continue
        if tag in ("anon-right", "anon-left", "masked-right", "masked-left"):
            pairs = _split(case)
            prior = "(useq (ss) %s)" % " ".join(obs.to_text(p) for p in pairs[:-1]) if len(pairs) > 1 else "(useq (ss))"
            pres = res_of.get(prior)
            if pres is None:
                continue
            if obs.parse_result(pres)[0] != "some":
                continue
            if res != pres:
                yield dict(case=case, tag=tag, cases=[prior, case],
                           why="unifying with $_ (or with a copy masked by $_) must succeed and leave every binding as it was",
                           implementation=dict(before=pres, after=res))
        if tag.startswith("inst-masked-") and idx > 0:
            v = parse(tag.split(":", 1)[1])
            full = obs.parse_result(impl[idx - 1][1])
            if full[0] != "some": continue       # t and its instance do not unify (e.g. $_ inside): nothing to compare
            REL_STATS["instance_pairs_compared"] = REL_STATS.get("instance_pairs_compared", 0) + 1
            def mask(x): return "anon" if x == v else ([mask(y) for y in x] if isinstance(x, list) else x)
            exp = {i: mask(e) for i, e in enumerate(full[1]) if e is not None and i != int(v[1]) and e != v}
            got = None if r[0] != "some" else {i: e for i, e in enumerate(r[1]) if e is not None}
            if got != exp:
                yield dict(case=case, tag=tag, cases=[cases[idx - 1][0], case],
                           why="replacing a variable that occurs once by $_ must change nothing but that variable's own binding",
                           implementation=dict(with_variable=impl[idx - 1][1], with_anon=res))
            continue
        if tag == "solver-anon":
            # $_ in a goal matches the argument of EVERY clause: with $_ first and $N second, one answer per clause
            c = parse(case)
            nfacts = case.count("(rule ")
            qargs = [x for x in c[2][3:]] if c[2][0] == "build" else []
            want = nfacts if all(a == "anon" or (isinstance(a, list) and a[0] == "v") for a in qargs) else 1
            got = res.count("(ans (ss")
            REL_STATS["solver_anon_queries"] = REL_STATS.get("solver_anon_queries", 0) + 1
            if got != want:
                yield dict(case=case, tag=tag, why="a goal with $_ must match every clause: %d answers expected, %d given" % (want, got), implementation=dict(result=res[:600]))
            continue
        if tag == "seq-stripped" and idx > 0 and cases[idx - 1][1] == "seq-with-anon":
            full_case = cases[idx - 1][0]; full_res = impl[idx - 1][1]
            if full_res != res:
                yield dict(case=full_case, tag="seq-with-anon", cases=[full_case, case],
                           why="removing the steps `x = $_` / `$_ = x` from a sequence changed its result",
                           implementation=dict(with_anon=full_res, without=res))
