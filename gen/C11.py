"""C11: answers do not depend on how program variables are named.
Each generated program is solved as written and under several consistent (per-clause injective)
renamings of its clauses' variables; the implementation's observations are compared with each other."""
import re
from lib.sx import *
from lib import histcheck, obs
from gen import progs
from gen.progs import AND, C
from gen import histgen

SPEC_COLUMN_IS_ORACLE_INPUT = True
equivalent = histcheck.equivalent
describe = histgen.describe
REL_STATS = {}

def names_of(x, acc):
    if isinstance(x, list):
        if x and x[0] == "v":
            if x[2] not in acc: acc.append(x[2])
            return
        for y in x: names_of(y, acc)

def rename_rule(rule_txt, mapping_fn):
    r = parse(rule_txt)
    names = []; names_of(r, names)
    m = mapping_fn([unS(n) for n in names])
    def go(x):
        if isinstance(x, list):
            if x and x[0] == "v": return ["v", x[1], S(m[unS(x[2])])]
            return [go(y) for y in x]
        return x
    return obs.to_text(go(r))

def scheme(kind, rng):
    if kind == "same-names":       # every clause uses $X, $Y, $Z, ... in order of first occurrence
        return lambda ns: {n: "$" + "XYZUVW"[k] if k < 6 else "$N%d" % k for k, n in enumerate(ns)}
    if kind == "query-names":      # the clauses reuse the query's names $A, $B
        return lambda ns: {n: ["$A", "$B", "$C", "$D", "$E", "$F", "$G", "$H"][k] for k, n in enumerate(ns)}
    if kind == "permute":          # the clause's own names, permuted
        def f(ns):
            p = list(ns); rng.shuffle(p); return dict(zip(ns, p))
        return f
    if kind == "long-prefix":      # long names that agree in their first 16 / 32 characters; a non-ASCII one
        return lambda ns: {n: ["$TemperatureReadingCelsius", "$TemperatureReadingKelvin", "$A_name_of_more_than_thirty_two_characters_1",
                               "$A_name_of_more_than_thirty_two_characters_2", "$\u00c9t\u00e9", "$\u00c9t\u00e9s", "$FirstElement", "$LastElement", "$LeftNeighbour", "$RightNeighbour"][k % 10] + ("" if k < 10 else str(k))
                           for k, n in enumerate(ns)}
    def fresh(ns):                 # unrelated fresh names, different in every clause
        return {n: "$%s%d" % (rng.choice(["Var", "q", "Tmp_", "Z"]), rng.randrange(1000)) + str(k) for k, n in enumerate(ns)}
    return fresh

KINDS = ["same-names", "query-names", "permute", "fresh", "long-prefix"]

def cases(tier, rng):
    out = []
    n = 260 if tier == "quick" else 5000
    g = progs.Gen(rng)
    for k in range(n):
        rules, preds = g.program()
        q = g.query(preds)
        nasks = rng.choice([6, 10])
        ops = [progs.build(0, q)] + ([progs.ask(0)] * nasks if rng.random() < 0.7 else ["(solve-all 0)"])
        out.append((progs.hist(rules, ops), "original-%d" % k))
        for kind in KINDS:
            f = scheme(kind, rng)
            out.append((progs.hist([rename_rule(r, f) for r in rules], ops), "%s-%d" % (kind, k)))
    # the same at the level of SOURCE TEXT (parse_rule, parse_query): names that differ only after an underscore or a digit,
    # that extend one another, that are long
    from lib import pretty
    gt = progs.Gen(rng, allow_print=False, allow_not=False)     # (not(..) over a conjunction has no source syntax)
    def text_scheme(kind):
        if kind == "suffix": return lambda ns: {n: "$X_%d" % k for k, n in enumerate(ns)}
        if kind == "prefix": return lambda ns: {n: "$V" + "a" * k for k, n in enumerate(ns)}
        if kind == "long-prefix": return scheme("long-prefix", rng)
        return lambda ns: {n: "$%s%d" % (rng.choice(["Long_name_", "x", "Q9"]), k) for k, n in enumerate(ns)}
    nt = 60 if tier == "quick" else 1200
    for k in range(nt):
        rules, preds = gt.program()
        q = gt.query(preds)
        ops = [progs.build_text(0, progs.query_text(q))] + [progs.ask(0)] * rng.choice([5, 8])
        def as_text(rs): return "(hist (kb-text %s) %s)" % (" ".join(S(pretty.rule(parse(r))) for r in rs), " ".join(ops))
        out.append((as_text(rules), "original-t%d" % k))
        for kind in ("suffix", "prefix", "mixed", "long-prefix"):
            out.append((as_text([rename_rule(r, text_scheme(kind)) for r in rules]), "%s-t%d" % (kind, k)))
    # a clause with 15-20 distinct variables is fetched first, then clauses that reuse some of its names (a renaming map that
    # is reused across fetches and not emptied would hand them the earlier ids)
    for nv in (14, 15, 16, 17, 20):
        names = ["$%s" % chr(65 + k) for k in range(nv)]
        vs = [var(0, n) for n in names]
        wide = rule(cplx("spread", lst(vs), vs[0], vs[-1]))
        rs = [wide, rule(cplx("hue", atom("red"))), rule(cplx("hue", atom("blue"))),
              rule(cplx("colour", vs[0]), AND(C("spread", lst([integer(k) for k in range(nv)]), vs[1], vs[2]), C("hue", vs[0]))),
              rule(cplx("two", vs[0], vs[1]), AND(C("colour", vs[0]), C("colour", vs[1])))]
        ops = [progs.build(0, [atom("two"), var(0, "$P"), var(0, "$Q")])] + [progs.ask(0)] * 6
        out.append((progs.hist(rs, ops), "original-w%d" % nv))
        for kind in ("same-names", "permute", "fresh", "long-prefix"):
            out.append((progs.hist([rename_rule(r, scheme(kind, rng)) for r in rs], ops), "%s-w%d" % (kind, nv)))
    # witness of the known finding: join(..) turns an UNBOUND variable into text that contains its name
    wit = [rule(cplx("f", var(0, "$X"), var(0, "$Y")), bip("unify", var(0, "$Y"), fn("join", var(0, "$X"), atom("hello"))))]
    wops = [progs.build(0, [atom("f"), var(0, "$A"), var(0, "$R")]), progs.ask(0), progs.ask(0)]
    out.append((progs.hist(wit, wops), "original-joinwit"))
    out.append((progs.hist([rename_rule(r, lambda ns: {n: {"$X": "$Z", "$Y": "$W"}[n] for n in ns}) for r in wit], wops), "fresh-joinwit"))
    return out

_JOIN_VAR = re.compile(r"\(fn %s [^()]*(\([^()]*\)[^()]*)*\(v " % re.escape(S("join")))
def known_class(case, tag):
    """programs in which join(..) has a variable among its arguments (it may be unbound when join runs)"""
    return "join-of-unbound-variable" if _JOIN_VAR.search(case) else None

RULE = ("random programs (cut, not, print, disjunctions, built-ins, recursive library predicates) solved as written and under "
        "four renamings of the variables of every clause: every clause uses $X,$Y,$Z.. in order of first occurrence; every "
        "clause reuses the query's names $A,$B,..; the clause's own names permuted; unrelated fresh names; long names that agree in their first 16 / 32 or their last 8 characters and non-ASCII names. Relation on the "
        "implementation's own observations: same answers in the same order (resolved query compared up to renaming of unbound "
        "variables), same solve/solve_all texts and same output (variable names and ids in printed unbound variables masked). "
        "The same for programs given as SOURCE TEXT (parse_rule / parse_query), renamed to names that differ only after an underscore "
        "or digit, extend one another, or are long. Each run is also compared with the model. Non-trivial = the query has an answer and the program's clauses share or "
        "swap names under the renaming. One fixed witness of the known finding (join of an unbound variable).")

def nontrivial(case, tag, result):
    return not tag.startswith("original") and ("(ans (ss" in result or "(strs s" in result)

_VARTXT = re.compile(r"\$[A-Za-z0-9_]+")
def mask(txt): return _VARTXT.sub("$V", txt)

def view(iout, ires):
    """what must not depend on names: per operation, the resolved answer (canonical variables) / texts, and the output"""
    if not ires.startswith("(obs"): return ires
    r = parse(ires)
    outs = iout.split("\x03")
    v = []
    for k, o in enumerate(r[1:]):
        out = mask(outs[k]) if k < len(outs) else ""
        if isinstance(o, list) and o[0] == "ans":
            v.append(("ans", "none" if o[1] == "none" else obs.to_text(histcheck.canon(o[2])), out))
        elif isinstance(o, list) and o[0] in ("str", "strs"):
            v.append((o[0], tuple(mask(unS(x)) for x in o[1:-1]), out))
        elif isinstance(o, list) and o[0] == "built":
            v.append(("built", obs.to_text(histcheck.canon(o[1])), out))
        else:
            v.append((obs.to_text(o) if isinstance(o, list) else o, out))
    return v

def relations(cases, impl, model):
    REL_STATS.clear(); REL_STATS.update(renamed_runs_compared=0)
    base = {}
    for (case, tag), (iout, ires) in zip(cases, impl):
        if "-" not in tag: continue          # a replayed single case has no partner
        kind, k = tag.rsplit("-", 1)
        if kind == "original": base[k] = (case, view(iout, ires))
    for (case, tag), (iout, ires) in zip(cases, impl):
        if "-" not in tag: continue          # a replayed single case has no partner
        kind, k = tag.rsplit("-", 1)
        if kind == "original" or k not in base: continue
        REL_STATS["renamed_runs_compared"] += 1
        v = view(iout, ires)
        if v != base[k][1]:
            # a panic message / divergence point may legitimately mention nothing name-dependent; report any difference
            diff = next((i for i, (x, y) in enumerate(zip(v, base[k][1])) if x != y), min(len(v), len(base[k][1])))
            yield dict(case=case, tag=tag, cases=[base[k][0], case],
                       why="renaming the clauses' variables (%s) changed the observations at operation %d" % (kind, diff),
                       implementation=dict(original=str(base[k][1])[:1500], renamed=str(v)[:1500]),
                       readable=dict(original=describe(base[k][0]), renamed=describe(case)))
