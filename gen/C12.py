"""C12: arithmetic functions.  Cases: (eval NAME (args) SS)."""
import itertools
from lib.sx import *

NAMES = ["add", "subtract", "multiply", "divide"]
I64MIN, I64MAX = -2**63, 2**63 - 1
INTS = [0, 1, -1, 2, 3, -3, 7, 10, -10, 12, 13, 2**31, 2**32 + 1, 2**53, 2**53 + 1, -(2**53) - 1,
        I64MAX, I64MAX - 1, I64MIN, I64MIN + 1, 3037000499, 3037000500, -3037000500]
FLOATS = [0.0, -0.0, 1.0, -1.0, 0.5, 2.5, 3.0, -3.0, 0.1, 0.2, 1/3, 1e300, -1e300, 1e-300, 5e-324,
          2.2250738585072014e-308, float(2**53), float(2**63), 9007199254740993.0, 1.7976931348623157e308, 13.0]
FBITS = [0x7ff0000000000000, 0xfff0000000000000, 0x7ff8000000000000, 0x7ff0000000000001, 0x000fffffffffffff]

def nums(rng):
    return [integer(i) for i in INTS] + [flt(f) for f in FLOATS] + [fbits(b) for b in FBITS]

def through_chain(c, depth, base):
    d = {}
    ids = list(range(base, base + depth))
    for k, i in enumerate(ids):
        d[i] = var(ids[k + 1], "$V%d" % ids[k + 1]) if k + 1 < depth else c
    return var(ids[0], "$V%d" % ids[0]), d

def cases(tier, rng):
    ns = nums(rng)
    small_i = [integer(i) for i in [0, 1, -1, 2, 3, -3, 7, 12, 13]]
    small_f = [flt(f) for f in [0.0, -0.0, 1.0, 0.5, 3.0, -3.0, 0.1, 1/3]]
    out = []
    # exhaustive: all pairs of the full universe, all four functions
    for name in NAMES:
        for a, b in itertools.product(ns, ns):
            out.append(("(eval %s (%s %s) (ss))" % (name, a, b), "pair"))
        for a in ns:
            out.append(("(eval %s (%s) (ss))" % (name, a), "single"))
    # all triples over a small universe
    sm = small_i + small_f
    for name in NAMES:
        for t in itertools.product(sm, repeat=3):
            if tier == "thorough" or rng.random() < 0.25:
                out.append(("(eval %s (%s) (ss))" % (name, " ".join(t)), "triple"))
    # random lists of 1-12 numbers, literally or through chains
    n = 3000 if tier == "quick" else 60000
    for _ in range(n):
        k = rng.choice([1, 2, 3, 4, 1, 2, 3, 4, 5, 7, 9, 12])
        mode = rng.random()
        if mode < 0.08:  args = [integer(rng.randint(-2**62, 2**62) >> rng.choice([0, 8, 20, 31, 40])) for _ in range(k)]
        elif mode < 0.3: args = [integer(rng.choice(INTS)) for _ in range(k)]
        elif mode < 0.5: args = [integer(rng.randint(-50, 50)) for _ in range(k)]
        elif mode < 0.7: args = [flt(rng.choice(FLOATS)) for _ in range(k)]
        elif mode < 0.8: args = [fbits(rng.getrandbits(64)) for _ in range(k)]
        else:            args = [rng.choice(ns) for _ in range(k)]
        d = {}
        base = 1
        targs = []
        for a in args:
            if rng.random() < 0.35:
                t, dd = through_chain(a, rng.randint(1, 3), base); base += 3; d.update(dd); targs.append(t)
            else:
                targs.append(a)
        out.append(("(eval %s (%s) %s)" % (rng.choice(NAMES), " ".join(targs), ss_from(d)), "random"))
    # through the text parser: function form and infix form, literals of every magnitude
    def lit(x):
        return repr(x) if isinstance(x, int) else ("%r" % x)
    tints = [i for i in INTS] + [2**53 + 3, -(2**53) - 3, 2**62 + 1, I64MAX - 2, 4611686018427387905, 123456789012345678]
    tflts = [0.5, 2.5, -3.0, 0.1, 3.0, 9007199254740993.0, 0.0, 1.25]
    tn = 1200 if tier == "quick" else 20000
    for _ in range(tn):
        k = rng.randint(1, 4)
        mode = rng.random()
        if mode < 0.45:  args = [rng.choice(tints) for _ in range(k)]
        elif mode < 0.6: args = [rng.randint(-50, 50) for _ in range(k)]
        else:            args = [rng.choice(tints + tflts) for _ in range(k)]
        name = rng.choice(NAMES)
        if rng.random() < 0.5:
            text = "%s(%s)" % (name, ", ".join(lit(a) for a in args))
        else:
            sym = {"add": "+", "subtract": "-", "multiply": "*", "divide": "/"}[name]
            if k < 2: args = args + [rng.choice(tints)]
            text = (" %s " % sym).join(lit(a) for a in args[:rng.choice([2, 2, 2, 3])])
        out.append(("(unify-text %s)" % S(text), "text"))
    for a, b in itertools.product([2**53 + 1, I64MAX, I64MAX - 1, 4611686018427387905, -(2**53) - 1], [0, 1, 5, -1]):
        for name, sym in (("add", "+"), ("subtract", "-"), ("multiply", "*"), ("divide", "/")):
            out.append(("(unify-text %s)" % S("%s(%d, %d)" % (name, a, b)), "text"))
            out.append(("(unify-text %s)" % S("%d %s %d" % (a, sym, b)), "text"))
    # outside the claim but the model must still agree: non-numbers, unbound, empty
    for name in NAMES:
        out.append(("(eval %s () (ss))" % name, "malformed"))
        out.append(("(eval %s (%s %s) (ss))" % (name, integer(1), atom("x")), "malformed"))
        out.append(("(eval %s (%s %s) (ss))" % (name, integer(1), var(1, "$X")), "malformed"))
        out.append(("(eval %s (%s %s) (ss - %s))" % (name, integer(1), var(1, "$X"), lst([integer(1)])), "malformed"))
    return out

RULE = ("all ordered pairs of a 49-number universe (i64 extremes, 2^53+-1, sqrt(2^63) neighbours, +-0.0, "
        "fractions, subnormals, infinities, NaN) for the four functions; all singletons; triples over a small "
        "universe; random lists of 1-12 numbers (also random integers of up to 62 bits), literally and through variable chains; the same through the text parser "
        "(parse_term of `add(..)` / `a + b`, integer literals up to i64 extremes and beyond 2^53, then unified with a fresh "
        "variable); malformed argument lists. "
        "Results are compared by bit pattern. Non-trivial = the evaluation returns a number (no panic).")

def nontrivial(case, tag, result):
    return result.startswith("(ok") and "none" not in result


# oracle on the implementation's own results, for the all-integer claims: the value is the left-to-right fold in
# exact integer arithmetic with truncating division, whenever no intermediate value leaves the i64 range and no
# divisor is zero (those are outside the claim)
import re
REL_STATS = {}
def _fold(name, xs):
    acc = xs[0]
    for x in xs[1:]:
        if name == "add": acc += x
        elif name == "subtract": acc -= x
        elif name == "multiply": acc *= x
        else:
            if x == 0: return None
            q = abs(acc) // abs(x); acc = q if (acc < 0) == (x < 0) else -q
        if not (I64MIN <= acc <= I64MAX): return None
    return acc

_INT = r"-?[0-9]+"
def _expected(case, tag):
    c = parse(case)
    if c[0] == "eval":
        if c[3] != ["ss"]: return None
        if not c[2] or any(not (isinstance(a, list) and a[0] == "i") for a in c[2]): return None
        return _fold(c[1], [int(a[1]) for a in c[2]])
    if c[0] == "unify-text":
        text = unS(c[1])
        m = re.fullmatch(r"(add|subtract|multiply|divide)\((%s(?:, %s)*)\)" % (_INT, _INT), text)
        if m: return _fold(m.group(1), [int(x) for x in m.group(2).split(", ")])
        m = re.fullmatch(r"(%s) ([-+*/]) (%s)" % (_INT, _INT), text)
        if m: return _fold({"+": "add", "-": "subtract", "*": "multiply", "/": "divide"}[m.group(2)], [int(m.group(1)), int(m.group(3))])
    return None

def relations(cases, impl):
    REL_STATS.clear(); REL_STATS.update(integer_folds_checked=0)
    for (case, tag), (out, res) in zip(cases, impl):
        if tag == "malformed": continue
        e = _expected(case, tag)
        if e is None: continue
        if any(not (I64MIN <= int(x) <= I64MAX) for x in re.findall(_INT, unS(parse(case)[1]) if case.startswith("(unify-text") else "0")): continue
        REL_STATS["integer_folds_checked"] += 1
        want = "(ok (i %d))" % e if case.startswith("(eval") else "(ok (some (ss - (i %d))))" % e
        if res != want:
            yield dict(case=case, tag=tag, why="all-integer arguments: the value is not the left-to-right integer fold %d" % e,
                       implementation=dict(result=res))
