"""C23: solve / solve_all report real answers or a timeout, never wrong ones.
The stop flag is raised at the n-th read for every small n (verification hook), or never."""
from lib.sx import *
from lib import histcheck
from gen import progs, histgen
from gen.progs import *

SPEC_COLUMN_IS_ORACLE_INPUT = True
equivalent = histcheck.equivalent
describe = histgen.describe
REL_STATS = {}
MSG = "Query timed out after 1000 milliseconds."

def cases(tier, rng):
    out = []
    # every flip point for a few fixed programs
    fixed = [
        (list(LIB[:5]) + [rule(cplx("a", X, Y), AND(C("n", X), C("e", Y)))], [atom("a"), var(0, "$P"), var(0, "$Q")]),
        (list(LIB[:5]) + [rule(cplx("a", X), AND(C("n", X), NOT(C("e", X)))), fact("a", i(9))], [atom("a"), var(0, "$P")]),
        (list(LIB), [atom("path"), var(0, "$F"), var(0, "$T")]),
        (list(LIB), [atom("app"), var(0, "$P"), var(0, "$S"), lst([i(1), i(2), i(3)])]),
        (list(LIB[:5]) + [rule(cplx("a", X), AND(C("n", X), PRINT(atom("%s;"), X), bip("greater_than", X, i(1)))), fact("a", i(0))], [atom("a"), var(0, "$P")]),
    ]
    maxn = 40 if tier == "quick" else 120
    for rules, q in fixed:
        out.append((hist(rules, [build(0, q), "(solve-all 0)"]), "never"))
        for n in range(maxn):
            out.append((hist(rules, [build(0, q), "(stop-after %d)" % n, "(solve-all 0)", "(solve 0)"]), "flip-solve-all"))
            if n % 3 == 0:
                out.append((hist(rules, [build(0, q), "(stop-after %d)" % n] + ["(solve 0)"] * 4), "flip-solve"))
    m = 400 if tier == "quick" else 8000
    g = progs.Gen(rng)
    for _ in range(m):
        rules, preds = g.program()
        q = g.query(preds)
        k = rng.random()
        if k < 0.25: out.append((hist(rules, [build(0, q), "(solve-all 0)"]), "never"))
        elif k < 0.7: out.append((hist(rules, [build(0, q), "(stop-after %d)" % rng.randrange(0, 30), "(solve-all 0)"]), "flip-solve-all"))
        else: out.append((hist(rules, [build(0, q), "(stop-after %d)" % rng.randrange(0, 30)] + ["(solve 0)"] * rng.choice([3, 6])), "flip-solve"))
    return out

RULE = ("five fixed programs (conjunction of multi-answer calls, not, recursive graph / list predicates, print) with the stop "
        "flag raised at the n-th read for EVERY n below 40 (thorough: 120) and never, through solve_all and through repeated "
        "solve; random programs with a random flip point. Oracle against the reference search of the query: solve_all's list "
        "without a trailing timeout message is exactly the reference answers; with the message, the texts before it are a "
        "prefix of the reference answers; without a pending flip there is never a message; each solve reports the next "
        "reference answer, `No more.` or the message, and after the message only the message or `No more.`... is not "
        "required (the query may be continued). The timer thread itself is not exercised. "
        "Non-trivial = the flag is raised while the search still has answers to give.")

def nontrivial(case, tag, result):
    return tag.startswith("flip") and "s81.117.101.114.121.32.116.105.109.101.100" in result and ("(strs s" in result or "(str s" in result)

def relations(cases, impl, model):
    REL_STATS.clear(); REL_STATS.update(solve_all_checked=0, solve_checked=0, reference_outside_or_unfinished=0)
    for (case, tag), (iout, ires), (mout, mres, spec) in zip(cases, impl, model):
        if "(trace" not in spec or not ires.startswith("(obs"):
            REL_STATS["reference_outside_or_unfinished"] += 1; continue
        sp = histcheck.slots_spec(parse(spec)).get(0, [])
        if not sp or sp[0][0] != "trace": continue
        ref = [x[2] for x in sp[0][1]]
        if None in ref: continue
        ref = [histcheck.novarid(x) for x in ref]
        ops = parse(case)[2:]; obs = parse(ires)[1:]
        pending = False; pos = 0; why = None
        for op, o in zip(ops, obs):
            if op[0] == "stop-after": pending = True
            if not isinstance(o, list): break
            if o[0] == "strs":
                REL_STATS["solve_all_checked"] += 1
                strs = [histcheck.novarid(unS(x)) for x in o[1:-1]]
                timed = bool(strs) and strs[-1] == MSG
                body = strs[:-1] if timed else strs
                if timed and not pending: why = "solve_all reports a timeout although nothing raised the stop flag"
                elif body != ref[pos:pos + len(body)]: why = "solve_all reports %r, which is not a prefix of the reference answers %r" % (body, ref[pos:])
                elif not timed and body != ref[pos:]: why = "solve_all reports %r without a timeout message, but the reference answers are %r" % (body, ref[pos:])
                pos += len(body)
                if timed: break     # the search was cut short: the node's later behaviour is not specified
            elif o[0] == "str":
                REL_STATS["solve_checked"] += 1
                txt = histcheck.novarid(unS(o[1]))
                if txt == MSG:
                    if not pending: why = "solve reports a timeout although nothing raised the stop flag"
                    break
                if pos < len(ref):
                    if txt != ref[pos]: why = "solve reports %r; the next reference answer is %r" % (txt, ref[pos])
                    pos += 1
                elif txt != "No more.": why = "solve reports %r; the reference search has no more answers" % txt
            if why: break
        if why:
            yield dict(case=case, tag=tag, why=why, implementation=dict(output=iout, result=ires[:3000]),
                       specification=dict(reference_answers=ref), readable=describe(case))
