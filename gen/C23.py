"""C23: solve / solve_all report real answers or a timeout, never wrong ones.
The stop flag is raised at the n-th read for every small n (verification hook), or never."""
from lib.sx import *
from lib import histcheck
from gen import progs, histgen
from gen.progs import *

SPEC_COLUMN_IS_ORACLE_INPUT = True
equivalent = histcheck.equivalent
describe = histgen.describe
REL_STATS = {}
MSG = "Query timed out after 1000 milliseconds."

def cases(tier, rng):
    out = []
    # every flip point for a few fixed programs
    fixed = [
        (list(LIB[:5]) + [rule(cplx("a", X, Y), AND(C("n", X), C("e", Y)))], [atom("a"), var(0, "$P"), var(0, "$Q")]),
        (list(LIB[:5]) + [rule(cplx("a", X), AND(C("n", X), NOT(C("e", X)))), fact("a", i(9))], [atom("a"), var(0, "$P")]),
        (list(LIB), [atom("path"), var(0, "$F"), var(0, "$T")]),
        (list(LIB), [atom("app"), var(0, "$P"), var(0, "$S"), lst([i(1), i(2), i(3)])]),
        (list(LIB[:5]) + [rule(cplx("a", X), AND(C("n", X), PRINT(atom("%s;"), X), bip("greater_than", X, i(1)))), fact("a", i(0))], [atom("a"), var(0, "$P")]),
    ]
    maxn = 40 if tier == "quick" else 120
    for rules, q in fixed:
        out.append((hist(rules, [build(0, q), "(solve-all 0)"]), "never"))
        for n in range(maxn):
            out.append((hist(rules, [build(0, q), "(stop-after %d)" % n, "(solve-all 0)", "(solve 0)"]), "flip-solve-all"))
            if n % 3 == 0:
                out.append((hist(rules, [build(0, q), "(stop-after %d)" % n] + ["(solve 0)"] * 4), "flip-solve"))
    # the flag protocol of time_out.rs, every interleaving of main-thread operations and time-outs of ANY timer started
    # so far (late, cancelled, superseded), exhaustively up to 4 steps, randomly beyond
    def timer_seqs(n):
        seqs = [((), 0, 0)]            # (ops, timers started, timers still held)
        for _ in range(n):
            nxt = []
            for ops, st, held in seqs:
                for o, a, b in ([("(start)", st + 1, held + 1), ("(start-query)", st, held), ("(stop)", st, held), ("(read)", st, held)] +
                                [("(fire %d)" % k, st, held) for k in range(st)] + ([("(cancel)", st, held - 1)] if held else [])):
                    nxt.append((ops + (o,), a, b))
            yield from nxt
            seqs = nxt
    for ops, _, _ in timer_seqs(4 if tier == "quick" else 5):
        out.append(("(timer %s)" % " ".join(ops), "timer"))
    for _ in range(600 if tier == "quick" else 6000):
        ops, st, held = [], 0, 0
        for _ in range(rng.randint(5, 12)):
            c = rng.choice(["start", "start", "fire", "fire", "fire", "cancel", "stop", "read", "start-query"])
            if c == "fire" and st: ops.append("(fire %d)" % rng.randrange(st))
            elif c == "cancel" and held: ops.append("(cancel)"); held -= 1
            elif c == "start": ops.append("(start)"); st += 1; held += 1
            elif c in ("stop", "read", "start-query"): ops.append("(%s)" % c)
        out.append(("(timer %s)" % " ".join(ops), "timer"))
    # very many queries between the start of a timer and its time-out: a query number kept in too few bits comes round again
    for nq in ([255, 256, 16383, 16384, 16385, 65535, 65536] if tier == "quick" else [255, 256, 257, 1023, 1024, 16383, 16384, 16385, 32768, 65535, 65536, 65537, 131072]):
        for pre in (["(start)"], ["(start)", "(cancel)"], ["(start)", "(start)"], ["(start-query)", "(start)"]):
            out.append(("(timer %s)" % " ".join(pre + ["(start-query)"] * nq + ["(read)", "(fire 0)", "(read)", "(start)", "(fire 0)", "(read)"]), "timer"))
    if tier != "quick":
        # a predicate of 66 000 clauses (clause counters kept in 16 bits come round): thorough tier only - the model needs about
        # two minutes for it (its knowledge base is a list)
        many = [fact("w", i(k), i(k % 1000)) for k in range(66000)]
        out.append((hist(many, [build(0, [atom("w"), i(65990), var(0, "$Y")]), "(solve 0)", "(solve 0)"]), "never"))
    m = 400 if tier == "quick" else 8000
    g = progs.Gen(rng)
    for _ in range(m):
        rules, preds = g.program()
        q = g.query(preds)
        k = rng.random()
        if k < 0.25: out.append((hist(rules, [build(0, q), "(solve-all 0)"]), "never"))
        elif k < 0.7: out.append((hist(rules, [build(0, q), "(stop-after %d)" % rng.randrange(0, 30), "(solve-all 0)"]), "flip-solve-all"))
        else: out.append((hist(rules, [build(0, q), "(stop-after %d)" % rng.randrange(0, 30)] + ["(solve 0)"] * rng.choice([3, 6])), "flip-solve"))
    # long searches (40-clause predicates, a chain 30 links deep, up to 60 answers) with the flag raised late: at read 40 ... 5000
    from gen import C01
    from lib.sx import integer as _i
    big = C01.large_kb()
    V = lambda n: var(0, n)
    for q in ([atom("num"), V("$N")], [atom("reach"), _i(1), V("$To")], [atom("pair"), V("$A"), V("$B")], [atom("reach"), V("$From"), _i(31)]):
        for n in ([40, 200, 1000, 5000] if tier == "quick" else [40, 41, 64, 65, 100, 200, 255, 256, 1000, 1023, 1024, 5000, 70000]):
            out.append((hist(big, [build(0, q), "(stop-after %d)" % n, "(solve-all 0)"]), "flip-solve-all"))
            out.append((hist(big, [build(0, q), "(stop-after %d)" % n] + ["(solve 0)"] * 45), "flip-solve"))
        out.append((hist(big, [build(0, q), "(solve-all 0)"]), "never"))
    return out

RULE = ("five fixed programs (conjunction of multi-answer calls, not, recursive graph / list predicates, print) with the stop "
        "flag raised at the n-th read for EVERY n below 40 (thorough: 120) and never, through solve_all and through repeated "
        "solve; timer histories with 255 ... 65536 query starts between the start of a timer and its time-out; random programs with a random flip point; long searches (40-clause predicates, a 30-link chain, up to 60 answers) with the flag raised at read 40 ... 5000. Oracle against the reference search of the query: solve_all's list "
        "without a trailing timeout message is exactly the reference answers; with the message, the texts before it are a "
        "prefix of the reference answers; without a pending flip there is never a message; each solve reports the next "
        "reference answer, `No more.` or the message, and after the message only the message or `No more.`... is not "
        "required (the query may be continued). The flag protocol of time_out.rs is driven step by step through hooks: all "
        "interleavings of start_query_timer / start_query / cancel_timer / stop_query / query_stopped with time-outs of ANY "
        "timer started so far (late, cancelled, superseded) up to 4 steps (thorough: 5) and random ones of 5-12 steps; oracle on "
        "the implementation's observations: the flag goes up only at stop_query or at the time-out of the current query's own, "
        "uncancelled timer, and goes down only when a query starts. Real timer threads firing on their own are not exercised. "
        "Non-trivial = the flag is raised while the search still has answers to give.")

def nontrivial(case, tag, result):
    if tag == "timer": return "(fire" in case and " 1)" in result
    return tag.startswith("flip") and "s81.117.101.114.121.32.116.105.109.101.100" in result and ("(strs s" in result or "(str s" in result)

def timer_relations(case, ires):
    """Proofs/TimerProofs.v flag_raised_only_by / flag_stays, evaluated on the implementation's own observations"""
    ops = parse(case)[1:]
    obs = parse(ires)[1:]
    flag = 0; own = None; nstarted = 0; cancelled_or_stopped = False
    for op, o in zip(ops, obs):
        new = int(o[3])
        legit_up = op[0] == "stop" or (op[0] == "fire" and own is not None and int(op[1]) == own and not cancelled_or_stopped)
        if op[0] == "start": own = nstarted; nstarted += 1; cancelled_or_stopped = False
        elif op[0] == "start-query": own = None; cancelled_or_stopped = False
        elif op[0] == "cancel": cancelled_or_stopped = True
        elif op[0] == "stop": cancelled_or_stopped = True
        if flag == 0 and new == 1 and not legit_up:
            return "the flag was raised by %s, which is neither stop_query nor the time-out of the current query's own running timer" % " ".join(op)
        if flag == 0 and new == 1: cancelled_or_stopped = True
        if flag == 1 and new == 0 and op[0] not in ("start", "start-query"):
            return "the flag went down at %s although no query was started" % " ".join(op)
        if flag == 0 and new == 0 and legit_up and op[0] == "stop":
            return "stop_query did not raise the flag"
        flag = new
    return None

def relations(cases, impl, model):
    REL_STATS.clear(); REL_STATS.update(solve_all_checked=0, solve_checked=0, reference_outside_or_unfinished=0, timer_histories_checked=0)
    for (case, tag), (iout, ires) in zip(cases, impl):
        if tag == "timer" and ires in ("panic", "diverged"):
            yield dict(case=case[:300] + (" ..." if len(case) > 300 else ""), tag=tag, why="an operation of the stop-flag protocol (start / start-query / fire / cancel / stop / read) %s" % ("panicked" if ires == "panic" else "did not return"),
                       implementation=dict(result=ires), cases=[case])
            continue
        if tag == "timer" and ires.startswith("(tobs"):
            REL_STATS["timer_histories_checked"] += 1
            why = timer_relations(case, ires)
            if why: yield dict(case=case, tag=tag, why=why, implementation=dict(result=ires))
    # a request times out only when something raised the flag DURING it: solve / solve_all start their own timer, which
    # clears the flag, and a (stop-after n) schedule applies to the next request only - whatever happened to earlier
    # requests and whichever node is asked
    for (case, tag), (iout, ires) in zip(cases, impl):
        if not (case.startswith("(hist") and ires.startswith("(obs")): continue
        try: ops = parse(case)[2:]; obs = parse(ires)[1:]
        except Exception: continue
        pending = False
        for op, o in zip(ops, obs):
            if op[0] == "stop-after": pending = True; continue
            if op[0] in ("solve", "solve-all") and isinstance(o, list) and o and o[0] in ("str", "strs"):
                texts = [histcheck.novarid(unS(x)) for x in (o[1:-1] if o[0] == "strs" else o[1:2])]
                REL_STATS["requests_checked_for_unprovoked_timeout"] = REL_STATS.get("requests_checked_for_unprovoked_timeout", 0) + 1
                if texts and texts[-1] == MSG and not pending:
                    yield dict(case=case, tag=tag, why="%s reports a timeout although nothing raised the stop flag during this request (a flag left over from an earlier request?)" % op[0],
                               implementation=dict(result=ires))
                    break
            if op[0] in ("ask", "solve", "solve-all"): pending = False
    for (case, tag), (iout, ires), (mout, mres, spec) in zip(cases, impl, model):
        if "(trace" not in spec or not ires.startswith("(obs"):
            REL_STATS["reference_outside_or_unfinished"] += 1; continue
        sp = histcheck.slots_spec(parse(spec)).get(0, [])
        if not sp or sp[0][0] != "trace": continue
        ref = [x[2] for x in sp[0][1]]
        if None in ref: continue
        ref = [histcheck.novarid(x) for x in ref]
        ops = parse(case)[2:]; obs = parse(ires)[1:]
        pending = False; pos = 0; why = None
        for op, o in zip(ops, obs):
            if op[0] == "stop-after": pending = True
            if o == "ok": continue              # the observation of (stop-after n)
            if not isinstance(o, list): break
            if o[0] == "strs":
                REL_STATS["solve_all_checked"] += 1
                strs = [histcheck.novarid(unS(x)) for x in o[1:-1]]
                timed = bool(strs) and strs[-1] == MSG
                body = strs[:-1] if timed else strs
                if timed and not pending: why = "solve_all reports a timeout although nothing raised the stop flag"
                elif body != ref[pos:pos + len(body)]: why = "solve_all reports %r, which is not a prefix of the reference answers %r" % (body, ref[pos:])
                elif not timed and body != ref[pos:]: why = "solve_all reports %r without a timeout message, but the reference answers are %r" % (body, ref[pos:])
                pos += len(body)
                if timed: break     # the search was cut short: the node's later behaviour is not specified
            elif o[0] == "str":
                REL_STATS["solve_checked"] += 1
                txt = histcheck.novarid(unS(o[1]))
                if txt == MSG:
                    if not pending: why = "solve reports a timeout although nothing raised the stop flag"
                    break
                if pos < len(ref):
                    if txt != ref[pos]: why = "solve reports %r; the next reference answer is %r" % (txt, ref[pos])
                    pos += 1
                elif txt != "No more.": why = "solve reports %r; the reference search has no more answers" % txt
            if why: break
        if why:
            yield dict(case=case, tag=tag, why=why, implementation=dict(output=iout, result=ires[:3000]),
                       specification=dict(reference_answers=ref), readable=describe(case))
