"""C18 (term-level entry points): parsers return a value or an error for every input."""
from gen import parse_common as pc
from lib.sx import S, unS

META = {"assumptions": [
    "entry points covered: parse_term, parse_arguments, parse_linked_list, parse_complex, parse_function, "
    "parse_query, parse_subgoal, check_infix, check_arithmetic_infix; generate_goal and parse_rule are not in this file",
    "char::is_alphabetic is modelled exactly only on U+0000-024F, U+0370-04FF, U+4E00-9FFF; generators stay inside",
    "str::parse::<f64> is modelled by one rounding of the exact decimal value (argued, not proved, to be the "
    "correctly rounded result); compared bit for bit with the machine on every generated float text",
]}

def cases(tier, rng):
    out = []
    n_all = 3
    for s in pc.exhaustive(n_all):
        for op in pc.ALL_OPS:
            out.append((pc.case(op, s), "exhaustive<=%d" % n_all))
    # length 4: the two entry points that panicked before the repairs in the quick tier, all in the thorough one
    ops4 = ["parse-args", "parse-subgoal"] if tier == "quick" else pc.TERM_OPS + pc.GOAL_OPS
    for s in pc.exhaustive(4):
        if len(s) == 4:
            for op in ops4:
                out.append((pc.case(op, s), "exhaustive=4"))
    n = 2500 if tier == "quick" else 40000
    strs = []
    for s in pc.FLOAT_EDGE:
        strs.append((s, "float-edge"))
    for _ in range(n):
        t = pc.gen_term(rng, rng.randint(0, 3)); strs.append((t, "grammar-term")); strs.append((pc.mutate(rng, t), "mutated-term"))
        a = pc.gen_args(rng, 2); strs.append((a, "grammar-args")); strs.append((pc.mutate(rng, a), "mutated-args"))
        g = pc.gen_goal(rng, 2); strs.append((g, "grammar-goal")); strs.append((pc.mutate(rng, g), "mutated-goal"))
        strs.append(("[" + a + "]", "grammar-list")); strs.append((g + ".", "grammar-query"))
        strs.append((pc.random_string(rng), "random"))
    # deep nesting (recursion depth = fuel use)
    for d in (10, 50, 200):
        strs.append(("[" * d + "a" + "]" * d, "deep")); strs.append(("f(" * d + "a" + ")" * d, "deep"))
        strs.append(("not(" * d + "a" + ")" * d, "deep")); strs.append(("[" * d, "deep")); strs.append(("f(" * d, "deep"))
    strs.append(("a" * 1001, "long")); strs.append(("f(" + "a, " * 400 + "a)", "long"))
    # around the 1000-character limit of complex terms, counted in characters and (non-ASCII) in bytes
    for L in (997, 998, 999, 1000, 1001, 1002):
        strs.append(("f(" + "a" * (L - 3) + ")", "long")); strs.append(("f(" + "\u00e9" * ((L - 3) // 2) + ")", "long"))
        strs.append(("f(" + "\u00e9" * (L - 3) + ")", "long")); strs.append(("p :- f(" + "a" * (L - 3) + ")", "long"))
        strs.append(("[" + "a, " * ((L - 3) // 3) + "a]", "long"))
    # too long AND non-ASCII at every byte alignment (the error path of the length check), also as a rule and a goal
    for pre in ("f(", "fo(", "foo(", "a_functor_of_exactly_sixty_three_characters_aaaaaaaaaaaaaaaaaaaaaaaa"[:63] + "\u00e9("):
        for ch in ("\u00e9", "\u65e5", "\U0001F600"):
            for L in (1001, 1100):
                strs.append((pre + ch * L + ")", "long")); strs.append(("p :- " + pre + ch * L + ")", "long"))
    # built-in functions nested deep with a syntax error at the innermost level (each level must be parsed once, not twice)
    for d in (5, 12, 20, 30, 45):
        for fnm in ("add", "join", "divide"):
            strs.append(((fnm + "(") * d + "1," + ")" * d, "deep")); strs.append(((fnm + "(") * d + ")" * d, "deep"))
            strs.append(((fnm + "(") * d + "1, 2" + ")" * d, "deep"))
    for s0 in pc.EXPONENT_LIKE: strs.append((s0, "float-edge"))
    seen = set()
    for s, tag in strs:
        if s in seen: continue
        seen.add(s)
        for op in pc.ALL_OPS:
            out.append((pc.case(op, s), tag))
    return out

RULE = ("All strings of length <= 3 over the 26-character syntax alphabet `a b 1 0 . - + $ _ X ( ) [ ] | , ; \" \\ = < > * / "
        "space %` through all nine operations, all strings of length 4 through parse_arguments and parse_subgoal (quick) or "
        "all seven parsers (thorough); then grammar-based term / argument-list / goal / list / query texts (signed numbers, "
        "floats, variables, $_, quoted atoms, escapes, lists with tails, complex terms, functions, infix arithmetic and "
        "comparison, not/time, non-ASCII letters and white space), each also mutated by 1-3 character edits, random strings of "
        "length 5-12, deeply nested and long texts. Observation per case: (ok <AST>) | err | panic | diverged, compared with "
        "the model; relation on the implementation's own results: never panic, never diverged. "
        "Non-trivial = the text has brackets, quotes or an escape and at least 3 characters.")

def nontrivial(case, tag, result):
    op, s = pc.uncase(case)
    return len(s) >= 3 and any(c in s for c in '()[]"\\')

def relations(cases, impl):
    for (case, tag), (out, res) in zip(cases, impl):
        if res in ("panic", "diverged"):
            op, s = pc.uncase(case)
            yield dict(case=case, tag=tag, why="%s(%r) must return a value or an error, but the call %s" % (
                op, s, "panicked" if res == "panic" else "did not return"), implementation=dict(result=res))

def describe(case):
    op, s = pc.uncase(case)
    return "%s(%r)" % (op.replace("-", "_"), s)
