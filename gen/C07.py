"""C07: unification is symmetric.  The cases are C06's (every pair also swapped; also with one side
carrying fresh ids as a renamed clause head does); the relation compares the two orders on the
implementation itself."""
from lib.sx import *
from lib import obs, refunify
from gen import C06
from gen.C06 import Q, mk, cases, _prior_and_pair

RULE = ("the pairs of C06 (119-term universe incl. lists with tail variables, [] and $_, under 18 prior substitutions), each "
        "unified in both orders, as written and with one side carrying fresh variable ids (head/goal form); pairs that need "
        "an occurs check are not generated. Relation on the implementation's own results: both orders agree on success, and "
        "on success the resolved values of all six variables agree up to renaming of unbound variables (a `$_` inside a value counts as a constant). Non-trivial = both orders succeed and bind something.")

def nontrivial(case, tag, result):
    return tag in ("pair-swapped", "goal-head", "big-swapped") and "(ok (some" in result and "(ss -" in result or "(ss (" in result

REL_STATS = {}
def relations(cases, impl):
    REL_STATS.clear(); REL_STATS.update(orders_compared=0, values_compared=0)
    res_of = {case: res for (case, tag), (out, res) in zip(cases, impl)}
    for (case, tag), (out, res) in zip(cases, impl):
        if tag not in ("pair-swapped", "goal-head", "big-swapped"): continue
        prior, (a, b) = _prior_and_pair(case)
        other = mk([(obs.to_text(p), obs.to_text(q)) for p, q in prior], obs.to_text(b), obs.to_text(a))
        ores = res_of.get(other)
        if ores is None: continue
        REL_STATS["orders_compared"] += 1
        p1, p2 = obs.parse_result(res), obs.parse_result(ores)
        why = None
        if (p1[0] == "some") != (p2[0] == "some"):
            why = "A = B %s but B = A %s" % (("succeeds" if p2[0] == "some" else p2[0]), ("succeeds" if p1[0] == "some" else p1[0]))
        elif p1[0] == "some":
            try:
                v1 = [refunify.norm(refunify.to_r(x)) for x in p1[2][0][2:]]
                v2 = [refunify.norm(refunify.to_r(x)) for x in p2[2][0][2:]]
                if True:       # `$_` inside a value is compared like a constant
                    REL_STATS["values_compared"] += 1
                    if refunify.canon(v1) != refunify.canon(v2):
                        why = "the two orders give different resolved values: %s vs %s" % (refunify.canon(v2), refunify.canon(v1))
            except refunify.Bad:
                pass
        if why:
            yield dict(case=case, tag=tag, cases=[other, case], why=why, implementation=dict(a_b=ores, b_a=res))
