"""C13: a function term is evaluated whichever side of `=` it is on.
Cases: (useq (ss) prior... (A B)).  For every function term F with value V (the value is
taken from the implementation itself: `$V9 = F`), and every other operand T:
   F = T  ~  V = T      and      T = F  ~  T = V     (same outcome: success/failure, bindings)."""
import itertools
from lib.sx import *
from lib import obs
from gen.universe import *

W = var(9, "$W")

FN = FUNCS + [
    fn("add", integer(2), integer(3)), fn("add", flt(1.5), flt(1.5)), fn("subtract", integer(2), flt(0.5)),
    fn("multiply", integer(3), integer(4)), fn("divide", integer(9), integer(3)), fn("divide", flt(1.0), integer(4)),
    fn("add", Y, Z), fn("multiply", Z, Z), fn("join", atom("hello"), atom(","), atom("world"), atom("!")),
    fn("join", Y), fn("join", lst([atom("a"), Y])), fn("add", fn("add", integer(1), integer(1)), integer(1)),
    fn("nosuch", atom("a")),
    # beyond the small values: integers above 2^53, long argument lists, floats with many digits, long joins
    fn("add", integer(2**53), integer(1)), fn("subtract", integer(-2**62), integer(2**62 - 1)), fn("multiply", integer(3037000499), integer(3037000499)),
    fn("add", *[integer(k) for k in range(1, 13)]), fn("add", flt(0.1), flt(0.2)), fn("divide", integer(2**53 + 1), integer(1)),
    fn("join", *[atom("w%d" % k) for k in range(12)]), fn("join", atom("Zo\u00eb"), atom(","), atom("\u65e5\u672c")),
]
PRI = [[], [(X, integer(1))], [(Y, integer(2)), (Z, flt(2.5))], [(X, Y), (Y, integer(3))], [(Z, atom("b")), (Y, atom("a"))],
       [(X, integer(3)), (Y, integer(1)), (Z, integer(2))], [(X, atom("a b")), (Y, atom("a"))]]

OTHERS = None
def others():
    global OTHERS
    if OTHERS is None:
        OTHERS = [atom("a"), atom("a b"), atom("hello, world!"), integer(3), integer(5), integer(12), flt(3.0), flt(0.25),
                  flt(5.0), X, Y, Z, W, var(8, "$U"), ANON, cplx("f", X), cplx("f", integer(3)), lst([integer(3)]), EMPTY,
                  lst([X], Y), integer(2**53 + 1), integer(2**53), flt(0.3), flt(0.1 + 0.2), integer(78)]
    return OTHERS

def mk(prior, a, b):
    return useq_case(prior, a, b)

def cases(tier, rng):
    out = []
    fs = FN
    for p in PRI:
        for f in fs:
            out.append((mk(p, W, f), "value"))              # $W = F  : the implementation's value of F
        for f in fs:
            for t in others():
                out.append((mk(p, f, t), "fn-left"))
                out.append((mk(p, t, f), "fn-right"))
            for g in fs:
                if rng.random() < (0.4 if tier == "quick" else 1.0):
                    out.append((mk(p, f, g), "fn-fn"))
    # the value-side cases are generated in relations() from the implementation's own value; to have
    # their results available they are generated here for every constant that can be a value
    vals = [integer(i) for i in range(0, 14)] + [flt(x) for x in (0.25, 3.0, 2.5, 1.5, 3.5, 4.5, 5.0, 6.25, 0.5)] + \
           [atom(s) for s in ("a b", "a", "a,", "x y", "hello, world!", "1,", "3,", "2", "a a", "a 2", "a b,", "1", "3")] + \
           [integer(2**53 + 1), integer(-2**63 + 1), integer(3037000499 * 3037000499), integer(78), flt(0.1 + 0.2), flt(0.3),
            atom(" ".join("w%d" % k for k in range(12))), atom("Zo\u00eb, \u65e5\u672c")]
    for p in PRI:
        for v in vals:
            for t in others():
                out.append((mk(p, v, t), "val-left"))
                out.append((mk(p, t, v), "val-right"))
    seen, res = set(), []
    for c in out:
        if c[0] not in seen:
            seen.add(c[0]); res.append(c)
    return res

RULE = ("every function term of a 22-term set (add/subtract/multiply/divide/join over integers, floats, bound variables, "
        "lists, nested functions, an unknown function) under 7 prior substitutions, against 20 other operands (atoms, "
        "numbers, bound/unbound variables, $_, complex terms, lists) on either side, and against each other. The value V of "
        "F is read off the implementation itself ($W = F); relation checked on the implementation: F = T has the same "
        "outcome as V = T and T = F the same as T = V; two function terms unify exactly when their values are the same constant. Non-trivial = the function evaluates and the unification succeeds.")

def nontrivial(case, tag, result):
    return tag in ("fn-left", "fn-right", "fn-fn") and "some" in result

def _last(case):
    c = parse(case)
    pairs = c[2:]
    return pairs[:-1], pairs[-1]

REL_STATS = {}
def relations(cases, impl):
    REL_STATS["function_vs_value_pairs_compared"] = 0
    res_of = {case: res for (case, tag), (out, res) in zip(cases, impl)}
    def value_of(prior_txt, f_txt):
        r = res_of.get("(useq (ss) %s)" % " ".join(prior_txt + ["(%s %s)" % (W, f_txt)]))
        if r is None: return None
        pr = obs.parse_result(r)
        if pr[0] != "some": return ("novalue", pr[0])
        e = pr[1]
        if len(e) > 9 and e[9] is not None: return ("value", obs.to_text(e[9]))
        return ("novalue", "unbound")
    REL_STATS["function_vs_function_pairs_compared"] = 0
    import struct
    def num(t):
        p = parse(t)
        if p[0] == "f": return struct.unpack("<d", struct.pack("<Q", int(p[1][1:], 16)))[0]
        return None
    # the value itself, where it can be computed independently: an arithmetic function over integer literals is the
    # left-to-right integer fold of its arguments (truncating division); compared when nothing overflows or divides by zero
    def int_fold(t):
        p = parse(t)
        if p[0] != "fn" or unS(p[1]) not in ("add", "subtract", "multiply", "divide") or not all(isinstance(a, list) and a[0] == "i" for a in p[2:]): return None
        xs = [int(a[1]) for a in p[2:]]
        acc = xs[0]
        for x in xs[1:]:
            opn = unS(p[1])
            if opn == "add": acc += x
            elif opn == "subtract": acc -= x
            elif opn == "multiply": acc *= x
            else:
                if x == 0: return None
                acc = abs(acc) // abs(x) * (1 if (acc >= 0) == (x >= 0) else -1)
            if not -2**63 <= acc < 2**63: return None
        return acc
    for (case, tag), (out, res) in zip(cases, impl):
        if tag != "value": continue
        prior, (a, b) = _last(case)
        want = int_fold(obs.to_text(b))
        if want is None: continue
        REL_STATS["integer_values_checked"] = REL_STATS.get("integer_values_checked", 0) + 1
        pr = obs.parse_result(res)
        got = pr[1][9] if pr[0] == "some" and len(pr[1]) > 9 else None
        if got != ["i", str(want)]:
            yield dict(case=case, tag=tag, why="the value of the function is not the integer fold of its arguments (%d)" % want, implementation=dict(result=res))
    for (case, tag), (out, res) in zip(cases, impl):
        if tag == "fn-fn":
            # two function terms: the outcome of unifying their VALUES (two constants: the same constant or not)
            prior, (a, b) = _last(case)
            ptxt = [obs.to_text(p) for p in prior]
            va, vb = value_of(ptxt, obs.to_text(a)), value_of(ptxt, obs.to_text(b))
            if va is None or vb is None or va[0] != "value" or vb[0] != "value": continue
            if parse(va[1])[0] not in "aif" or parse(vb[1])[0] not in "aif": continue
            fa, fb = num(va[1]), num(vb[1])
            same = (fa == fb) if (fa is not None and fb is not None) else (va[1] == vb[1])
            REL_STATS["function_vs_function_pairs_compared"] += 1
            pr = obs.parse_result(res)
            pres = res_of.get("(useq (ss) %s)" % " ".join(ptxt)) if ptxt else "(ok (some (ss)))"
            if (pr[0] == "some") != same or (same and pres is not None and res != pres):
                yield dict(case=case, tag=tag, why="two function terms with the values %s and %s: unification must %s" % (va[1], vb[1], "succeed and bind nothing" if same else "fail"),
                           implementation=dict(result=res))
            continue
        if tag not in ("fn-left", "fn-right"): continue
        prior, (a, b) = _last(case)
        ptxt = [obs.to_text(p) for p in prior]
        f, t = (a, b) if tag == "fn-left" else (b, a)
        ft, tt = obs.to_text(f), obs.to_text(t)
        if tt == W: continue
        v = value_of(ptxt, ft)
        if v is None or v[0] != "value": continue
        pair = "(%s %s)" % ((v[1], tt) if tag == "fn-left" else (tt, v[1]))
        other = "(useq (ss) %s)" % " ".join(ptxt + [pair])
        ores = res_of.get(other)
        if ores is None: continue
        REL_STATS["function_vs_value_pairs_compared"] += 1
        if ores != res:
            yield dict(case=case, tag=tag, cases=[case, other],
                       why="unifying the function term gives a different outcome from unifying its value %s" % v[1],
                       implementation=dict(with_function=res, with_value=ores))
