"""The bounded term universe shared by C06-C09, C13 (see DESIGN.md section 7)."""
import itertools
from lib.sx import *

X, Y, Z = var(1, "$X"), var(2, "$Y"), var(3, "$Z")
VARS = [X, Y, Z]
LEAVES = [atom("a"), atom("b"), integer(1), integer(2), flt(1.0), flt(2.5), X, Y, Z, ANON]
SMALL = [atom("a"), integer(1), X, Y, ANON]

def complexes(args1, args2):
    out = []
    for a in args1: out.append(cplx("f", a))
    for a, b in itertools.product(args2, args2): out.append(cplx("g", a, b))
    return out

def lists(elems, tails):
    out = [EMPTY]
    for a in elems:
        out.append(lst([a]))
        for t in tails: out.append(lst([a], t))
    for a, b in itertools.product(elems, elems):
        out.append(lst([a, b]))
        for t in tails: out.append(lst([a, b], t))
    return out

def universe():
    """~126 terms, depth <= 2"""
    u = list(LEAVES)
    u += complexes(SMALL, [atom("a"), X, Y])
    u += lists([atom("a"), integer(1), X, Y], [X, Z, ANON])
    u += [lst([lst([atom("a")])]), lst([EMPTY]), lst([lst([X], Y)]), cplx("f", lst([X])), cplx("f", cplx("f", Y)),
          lst([cplx("f", X)], Z), lst([atom("a"), atom("b"), atom("a")]), lst([X, Y, Z]),
          # the same functor with other arities (prefixes of one another), also nested
          cplx("f", atom("a"), X), cplx("f", X, atom("a"), Y), cplx("g", X), cplx("g", atom("a"), Y, Z), cplx("f"),
          cplx("f", cplx("g", atom("a"))), lst([cplx("g", X)], Z)]
    # dedupe, keep order
    seen, out = set(), []
    for t in u:
        if t not in seen:
            seen.add(t); out.append(t)
    return out

FUNCS = [fn("add", integer(1), integer(2)), fn("add", X, integer(1)), fn("subtract", integer(5), integer(2)),
         fn("multiply", flt(1.5), integer(2)), fn("divide", integer(7), integer(2)), fn("add", flt(0.5), flt(2.5)),
         fn("join", atom("a"), atom("b")), fn("join", X, atom(",")), fn("join", lst([atom("x"), atom("y")]))]

def priors(rng=None):
    """prior substitutions, each given as the sequence of unifications that builds it"""
    a, b = atom("a"), atom("b")
    base = [
        [], [(X, a)], [(Y, b)], [(X, Y)], [(Y, X)], [(X, Y), (Y, a)], [(X, Y), (Y, Z)], [(X, Y), (Z, Y)],
        [(X, lst([a], Y))], [(X, lst([a, b]))], [(Z, lst([Y]))], [(X, cplx("f", Y))], [(X, cplx("f", Y)), (Y, a)],
        [(X, integer(1))], [(Y, flt(1.0))], [(Z, EMPTY)], [(X, Y), (Y, Z), (Z, a)], [(Y, lst([a], Z)), (Z, lst([b]))],
    ]
    return base

def useq_case(prior, a, b):
    pairs = " ".join("(%s %s)" % (p, q) for p, q in prior + [(a, b)])
    return "(useq (ss) %s)" % pairs


def tail_chain(ids, elems, last=None):
    """a list spread over a chain of bound tail variables: returns (list term, bindings dict).  The list is
    [elems[0] | $V(ids[0])], $V(ids[k]) -> [elems[k+1] | $V(ids[k+1])], the last variable -> `last` (default [])."""
    vs = [var(i, "$T%d" % i) for i in ids]
    d = {}
    for k, i in enumerate(ids):
        d[i] = lst([elems[(k + 1) % len(elems)]], vs[k + 1]) if k + 1 < len(ids) else (EMPTY if last is None else last)
    return lst([elems[0]], vs[0]), d
