"""C18 (goal and rule level): generate_goal, tokenize, parse_rule return a value or an error
for every input string - never panic, never loop.  See gen/goals_common.py for the table
that supplies the leaf parsers to the model."""
from lib.sx import *
from gen.goals_common import *

META = dict(assumptions=[
    "the leaf parsers parse_subgoal / parse_complex are not part of this model: the model takes them as parameters; "
    "in the correspondence run their results come from the real crate (table inside each case)",
    "theorems assume the leaf parser itself returns a value or an error on every text (that is the term-level part of C18)",
])

def cases(tier, rng):
    quick = tier == "quick"
    items = []      # (op, text, tag) for generate-goal / parse-rule
    plain = []      # (case, tag) for tokenize / token-tree
    # (a) bounded-exhaustive strings over the syntax alphabet
    n1 = 3 if quick else 4
    for s in exhaustive(SYMS, n1):
        items.append(("generate-goal", s, "exh-goal"))
        items.append(("parse-rule", s, "exh-rule"))
        plain.append(("(tokenize %s)" % S(s), "exh-tokenize"))
    n2 = 4 if quick else 5
    for s in exhaustive(SYMS2, n2):
        items.append(("generate-goal", s, "exh2-goal"))
        if len(s) >= n2 - 1:
            plain.append(("(token-tree %s)" % S(s), "exh2-tree"))
    # longer strings over the same alphabets, sampled
    for _ in range(3000 if quick else 60000):
        k = rng.randint(n1 + 1, 9)
        s = "".join(rng.choice(SYMS if rng.random() < 0.6 else SYMS2) for _ in range(k))
        op = rng.choice(["generate-goal", "parse-rule"])
        items.append((op, s, "rand-goal" if op == "generate-goal" else "rand-rule"))
        if rng.random() < 0.3: plain.append(("(token-tree %s)" % S(s), "rand-tree"))
    # (b) grammar-based, mostly valid
    for _ in range(2500 if quick else 40000):
        sloppy = rng.random() < 0.4
        s = rand_goal_text(rng, rng.randint(0, 4), sloppy)
        items.append(("generate-goal", s, "grammar-goal"))
        if rng.random() < 0.3: plain.append(("(tokenize %s)" % S(s), "grammar-tokenize"))
        if rng.random() < 0.3: plain.append(("(token-tree %s)" % S(s), "grammar-tree"))
        r = rand_rule_text(rng, sloppy)
        items.append(("parse-rule", r, "grammar-rule"))
    # (c) mutations of valid text
    for _ in range(2500 if quick else 40000):
        s = mutate(rng, rand_goal_text(rng, rng.randint(0, 3)), rng.randint(1, 3))
        items.append(("generate-goal", s, "mut-goal"))
        if rng.random() < 0.3: plain.append(("(token-tree %s)" % S(s), "mut-tree"))
        r = mutate(rng, rand_rule_text(rng), rng.randint(1, 3))
        items.append(("parse-rule", r, "mut-rule"))
    # deep nesting (recursion depth of the grouping passes)
    for d in (5, 20, 60) if quick else (5, 20, 60, 200, 400):
        items.append(("generate-goal", "(" * d + "a, b" + ")" * d, "deep"))
        items.append(("generate-goal", "a, (" * d + "b" + ")" * d, "deep"))
        items.append(("generate-goal", "a(" * d + "b" + ")" * d + "; c", "deep"))
        items.append(("parse-rule", "h :- " + "(a; " * d + "b" + ")" * d + ".", "deep"))
    return with_tables(items) + plain

RULE = ("(a) every string of at most 3 (quick) / 4 (thorough) symbols over  a b ( ) , ; . = ! : - $ X space not \" \\ "
        "through generate_goal, parse_rule and tokenize, every string of at most 4 / 5 symbols over  a ( ) [ ] , ; \" \\ space "
        "through generate_goal and the token tree, random longer strings over both alphabets; (b) goal and rule texts from "
        "the grammar (26 leaf texts incl. infix, built-ins, not, time, cut, quoted and escaped separators, lists; "
        "conjunctions, disjunctions, groups nested to depth 4; sloppy spacing in 40%); (c) 1-3 character mutations of "
        "such texts; (d) nesting depth up to 60 / 400.  Observation: (ok AST) | err | panic | diverged, token kinds and "
        "texts for tokenize, the grouped token tree for token-tree.  Relation on the implementation: no result is panic or "
        "diverged unless a leaf parser itself panicked on one of the case's leaves.  Non-trivial = the text has a "
        "parenthesis, quote, bracket, backslash or separator and at least 3 characters.")

def nontrivial(case, tag, result):
    s = text_of_case(case)
    return s is not None and len(s) >= 3 and any(c in s for c in "()[]\"\\,;")

def relations(cases, impl):
    for (case, tag), (out, res) in zip(cases, impl):
        if res in ("panic", "diverged"):
            if table_has_failure(case): continue
            yield dict(case=case, tag=tag, cases=[case],
                       why="the parser %s on this input instead of returning a value or an error" %
                           ("panicked" if res == "panic" else "did not return"),
                       implementation=dict(result=res), readable=readable(case))

def describe(case):
    return readable(case)
