"""C15: engine-built lists hold exactly their elements.
Cases: (mlot (xs)), (mll vbar (xs)), (bip append (inputs.. $Out) ss), (bip include ($_ list $Out) ss),
(rename-term ctr list)."""
import itertools
from lib.sx import *
from lib import obs, pyspec
from gen.universe import X, Y, Z

OUT = var(20, "$Out")
ELEMS = [atom("a"), integer(1), flt(2.5), X, Y, ANON, EMPTY, lst([atom("b")]), lst([atom("b"), atom("c")]),
         lst([X], Y), cplx("f", atom("a")), cplx("f", lst([atom("a")])), lst([EMPTY]), lst([atom("b")], Z)]
SMALL = [atom("a"), X, EMPTY, lst([atom("b"), atom("c")]), lst([X], Y), ANON]

def seqs(tier, rng):
    out = [()]
    for x in ELEMS: out.append((x,))
    for p in itertools.product(ELEMS, repeat=2): out.append(p)
    for p in itertools.product(SMALL, repeat=3): out.append(p)
    n = 1500 if tier == "quick" else 30000
    for _ in range(n):
        out.append(tuple(rng.choice(ELEMS) for _ in range(rng.randint(3, 5))))
    out.append(tuple(ELEMS[k % len(ELEMS)] for k in range(300)))      # one very long one
    for _ in range(60 if tier == "quick" else 1500):      # long ones
        out.append(tuple(rng.choice(ELEMS) for _ in range(rng.choice([8, 9, 12, 16, 17, 24, 33]))))
    return out

def cases(tier, rng):
    out = []
    for s in seqs(tier, rng):
        ts = " ".join(s)
        out.append(("(mlot (%s))" % ts, "list-of-terms"))
        out.append(("(mll 0 (%s))" % ts, "constructor"))
        if s and s[-1] in (X, Y, ANON) or rng.random() < 0.3:
            out.append(("(mll 1 (%s))" % ts, "constructor-vbar"))
        if len(s) >= 1 and (len(s) <= 4 or len(s) >= 8):
            out.append(("(bip %s (%s %s) (ss))" % (S("append"), ts, OUT), "append"))
            # the same with the tail variables bound: to [], to a list, through a chain that ends in []
            if any(v in ts for v in (Y, Z)) and (len(s) <= 2 or rng.random() < 0.3):
                for d in ({2: EMPTY, 3: EMPTY}, {2: lst([atom("c")]), 3: lst([atom("a")], Y)}, {3: lst([atom("a")], Y), 2: EMPTY}, {2: Z, 3: EMPTY}):
                    out.append(("(bip %s (%s %s) %s)" % (S("append"), ts, OUT, ss_from(d)), "append"))
        if s:
            l = lst(list(s))
            out.append(("(bip %s (%s %s %s) (ss))" % (S("include"), ANON, l, OUT), "include-all"))
            out.append(("(bip %s (%s %s %s) (ss))" % (S("exclude"), atom("zzz"), l, OUT), "exclude-none"))
            out.append(("(rename-term 7 %s)" % l, "rename"))
            if s[-1] in (X, Y):
                out.append(("(rename-term 7 %s)" % lst(list(s[:-1]), s[-1]), "rename") if len(s) > 1 else ("(rename-term 3 %s)" % l, "rename"))
    from gen.universe import tail_chain
    el = [atom("a"), atom("b"), integer(1), lst([atom("c")]), EMPTY]
    for ids, last in (([4, 68, 132], None), ([5, 261, 517, 69], lst([atom("c")])), (list(range(30, 97)), None), (list(range(30, 160)), lst([atom("q")]))):
        l, d = tail_chain(ids, el, last)
        out.append(("(bip %s (%s %s) %s)" % (S("append"), l, OUT, ss_from(d)), "append"))
        out.append(("(bip %s (%s %s %s) %s)" % (S("append"), atom("x"), l, OUT, ss_from(d)), "append"))
    # parsed lists: the text of a list of 0-5 and 8-20 elements (atoms, integers of every magnitude, floats, variables, $_, [],
    # nested lists with and without tails, complex terms), with and without a tail variable, through parse_term and parse_linked_list
    from lib import pretty
    PV = lambda n: var(0, n)
    pel = [atom("a"), atom("b c"), integer(1), integer(-7), integer(2**53 + 1), integer(1234567890123456789), integer(-2**63 + 1), integer(2**63 - 1),
           flt(2.5), flt(0.1), PV("$X"), PV("$Y"), ANON, EMPTY, lst([atom("b")]), lst([atom("b"), atom("c")]), lst([PV("$X")], PV("$Y")),
           cplx("f", atom("a")), cplx("f", lst([atom("a")])), lst([EMPTY]), lst([atom("b")], ANON), atom("Zo\u00eb"), atom("\u65e5\u672c")]
    pseqs = [[]] + [[x] for x in pel] + [[x, y] for x in pel[:12] for y in pel[8:]]
    for _ in range(150 if tier == "quick" else 4000):
        pseqs.append([rng.choice(pel) for _ in range(rng.choice([3, 4, 5, 8, 12, 17, 20]))])
    for xs in pseqs:
        for tl in ((None, PV("$T"), ANON) if xs else (None,)):
            t = lst(xs, tl)
            text = pretty.term(parse(t))
            for opn in ("parse-term", "parse-list"):
                cse = "(%s %s)" % (opn, S(text))
                _PARSED[cse] = (xs, tl)
                out.append((cse, "parsed"))
    # the constant Nil as an element (last: the constructor drops it; elsewhere: it is kept as a term)
    for p in [()] + [(x,) for x in SMALL] + list(itertools.product(SMALL, repeat=2)):
        for q in (p + (NIL,), (NIL,) + p, p + (NIL, NIL)):
            for vbar in (0, 1):
                out.append(("(mll %d (%s))" % (vbar, " ".join(q)), "constructor-nil"))
    seen, res = set(), []
    for c in out:
        if c[0] not in seen: seen.add(c[0]); res.append(c)
    return res

RULE = ("element sequences of length 0-2 (all), 3 (all over a 6-term universe), 3-5 and 8-33 (random) over atoms, numbers, "
        "variables, $_, [], nested lists with and without tail variable, complex terms; each through make_list_of_terms, "
        "(and, as text, through parse_term / parse_linked_list: 0-5 and 8-20 elements incl. integers beyond 2^53 and at the i64 limits, non-ASCII atoms, with and without a tail variable / $_) "
        "make_linked_list (with and without vbar; also with the constant Nil among the terms - model-vs-implementation only), append (also over lists spread over chains of 3-130 bound tail variables, and with the tail variables bound to [], to a list and through a chain ending in []), include/exclude (filters that keep everything but unbound variables) and clause renaming. Oracle on "
        "the implementation's own results: the view `elems` (python twin of Spec.SpecLists.elems) of the built list is exactly "
        "the given sequence / the specified splice, every count is the number of nodes, renaming keeps the shape. "
        "Non-trivial = the sequence contains a list-valued or empty-list element or a tail variable.")

def nontrivial(case, tag, result):
    return "(l " in case.split(" ", 2)[-1]

REL_STATS = {}
_PARSED = {}
def _erase(t):
    if isinstance(t, list):
        if t and t[0] == "v": return ["v", "0", t[2]]
        return [_erase(x) for x in t]
    return t

def relations(cases, impl):
    REL_STATS.clear(); REL_STATS.update(oracle_checks=0)
    for (case, tag), (out, res) in zip(cases, impl):
        try:
            c = parse(case); r = parse(res)
        except Exception:
            yield dict(case=case, tag=tag, why="unreadable result", implementation=dict(result=res)); continue
        if res in ("panic", "diverged"):
            yield dict(case=case, tag=tag, why="building a list ended in " + res, implementation=dict(result=res)); continue
        why = None
        if tag == "parsed":
            xs, tl = _PARSED[case]
            REL_STATS["oracle_checks"] += 1
            exp = ([parse(x) for x in xs], None if tl is None else parse(tl))
            got = pyspec.elems(r[1]) if isinstance(r, list) and r and r[0] == "ok" else None
            if got != exp: why = "the parsed list does not hold exactly the elements written in the text"
            elif int(r[1][3]) != len(xs) + (1 if tl is not None else 0): why = "recorded length is not the number of nodes"
        elif tag == "list-of-terms":
            xs = c[1]
            REL_STATS["oracle_checks"] += 1
            if pyspec.elems(r) != (xs, None) or int(r[3]) != len(xs):
                why = "make_list_of_terms: the list does not hold exactly the given terms"
        elif tag in ("constructor", "constructor-vbar"):
            vbar = c[1] == "1"; xs = c[2]
            if any(x == "nil" for x in xs): continue
            REL_STATS["oracle_checks"] += 1
            if not xs: exp = ([], None)
            elif len(xs) == 1: exp = ([], xs[0]) if vbar else (xs, None)
            else:
                last = xs[-1]
                if pyspec.is_list(last):
                    e = pyspec.elems(last)
                    if e is None: continue
                    exp = (xs[:-1] + e[0], e[1])
                else:
                    exp = (xs[:-1], last) if vbar else (xs, None)
            got = pyspec.elems(r)
            if got != exp: why = "make_linked_list: documented constructor gives different elements/tail"
            else:
                if int(r[3]) != len(exp[0]) + (1 if exp[1] is not None else 0): why = "recorded length is not the number of nodes"
        elif tag in ("append", "include-all", "exclude-none"):
            p = obs.parse_result(res)
            if p[0] != "some": 
                why = "built-in failed"; 
            else:
                ent = p[1]
                got = ent[20] if len(ent) > 20 else None
                if tag == "append":
                    ins = c[2][:-1]
                    ent0 = [None if e == "-" else e for e in c[3][1:]]
                    cs = [pyspec.contrib(ent0, t) for t in ins]
                    if any(x is None for x in cs): continue
                    exp = [y for x in cs for y in x]
                else:
                    exp = pyspec.elements([], True, c[2][1])
                    if exp is None: continue
                    if tag == "exclude-none":   # unbound variables and $_ do unify with the atom `zzz`
                        exp = [x for x in exp if not pyspec.is_var(x) and x != "anon"]
                REL_STATS["oracle_checks"] += 1
                if got is None or pyspec.elems(got) != (exp, None) or int(got[3]) != len(exp):
                    why = "%s: the output list does not hold exactly the expected elements" % tag
        elif tag == "rename":
            REL_STATS["oracle_checks"] += 1
            if _erase(r[0]) != _erase(c[2]): why = "renaming changed the shape of a list"
        if why:
            yield dict(case=case, tag=tag, why=why, implementation=dict(result=res))
