"""Shared by C18goals / C19goals: cases for the goal- and rule-level parsers.

The model of generate_goal / parse_rule takes the leaf parsers (parse_subgoal, parse_complex)
as parameters.  For the correspondence run they are given as a TABLE inside the case:

    (generate-goal s<text> ((sg s<leaf> <result>) (cx s<leaf> <result>) ...))

<result> is what the REAL crate's parse_subgoal (sg) / parse_complex (cx) answers on that
leaf text: (ok <goal|term>) | err | panic | diverged.  The table is filled here, before the
comparison, by two passes over the real crate (harness ops `tokenize`, `parse-subgoal`,
`parse-complex`):
  pass 1  (tokenize <goal text>)      -> the Subgoal token texts = the leaves
  pass 2  (parse-subgoal <leaf>) ...  -> their results
For a rule text the candidates are computed generously (head / body / whole text, with and
without the final period); superfluous entries are harmless, a missing entry makes the
model side answer `bad:` (machinery error: the check fails closed).
"""
import os, sys
from lib import runner, sx
from lib.sx import S, unS

WS = set([9, 10, 11, 12, 13, 32, 133, 160, 5760, 8232, 8233, 8239, 8287, 12288] + list(range(8192, 8203)))

def rust_trim(s):
    a, b = 0, len(s)
    while a < b and ord(s[a]) in WS: a += 1
    while b > a and ord(s[b - 1]) in WS: b -= 1
    return s[a:b]

def run_impl(lines):
    """run case lines on the real crate, chunked in parallel; -> list of result strings"""
    if not lines: return []
    import concurrent.futures
    cs = runner.chunks(lines, 16)
    os.makedirs(runner.CACHE, exist_ok=True)
    with concurrent.futures.ThreadPoolExecutor(max_workers=8) as ex:
        fs = [ex.submit(runner._run_impl_chunk, c, 120) for c in cs]
        out = [r for f in fs for r in f.result()]
    return [r for (_, r) in out]

def leaves_of_tokens(res):
    """Subgoal texts in the result of (tokenize s)"""
    if not res.startswith("(ok"): return []
    try:
        p = sx.parse(res)
    except Exception:
        return []
    out = []
    for t in p[1]:
        if isinstance(t, list) and t and t[0] == "sub": out.append(unS(t[1]))
    return out

def rule_candidates(s):
    """-> (goal texts to tokenize, head texts (sg), fact texts (cx))"""
    t = rust_trim(s)
    variants = [t]
    if t.endswith("."): variants.append(t[:-1])
    bodies, heads, facts = [], [], []
    for v in variants:
        facts.append(v)
        k = v.find(":-")
        if k >= 0:
            heads.append(v[:k]); bodies.append(v[k + 2:])
    return bodies, heads, facts

def with_tables(items):
    """items: list of (op, text, tag) with op in generate-goal / parse-rule.
    -> list of (case line, tag)"""
    goal_texts = []
    per_item = []
    for op, s, tag in items:
        if op == "generate-goal":
            per_item.append(([s], [], []))
        else:
            per_item.append(rule_candidates(s))
        goal_texts += per_item[-1][0]
    uniq_goal = sorted(set(goal_texts))
    tok = dict(zip(uniq_goal, run_impl(["(tokenize %s)" % S(g) for g in uniq_goal])))
    sg_need, cx_need = set(), set()
    for (gs, hs, fs) in per_item:
        for g in gs: sg_need.update(leaves_of_tokens(tok[g]))
        sg_need.update(hs); cx_need.update(fs)
    sg_need, cx_need = sorted(sg_need), sorted(cx_need)
    sg = dict(zip(sg_need, run_impl(["(parse-subgoal %s)" % S(x) for x in sg_need])))
    cx = dict(zip(cx_need, run_impl(["(parse-complex %s)" % S(x) for x in cx_need])))
    out = []
    for (op, s, tag), (gs, hs, fs) in zip(items, per_item):
        ent = []
        seen = set()
        for g in gs:
            for lf in leaves_of_tokens(tok[g]):
                if ("sg", lf) not in seen:
                    seen.add(("sg", lf)); ent.append("(sg %s %s)" % (S(lf), sg[lf]))
        for h in hs:
            if ("sg", h) not in seen:
                seen.add(("sg", h)); ent.append("(sg %s %s)" % (S(h), sg[h]))
        for f in fs:
            if ("cx", f) not in seen:
                seen.add(("cx", f)); ent.append("(cx %s %s)" % (S(f), cx[f]))
        out.append(("(%s %s (%s))" % (op, S(s), " ".join(ent)), tag))
    return out

def table_has_failure(case):
    """a leaf parser itself panicked / hung on one of the leaves of this case"""
    return " panic)" in case or " diverged)" in case

def text_of_case(case):
    p = sx.parse(case)
    return unS(p[1]) if isinstance(p[1], str) and p[1].startswith("s") else None

# ---------------------------------------------------------------------------------------
# text generators

SYMS = ["a", "b", "(", ")", ",", ";", ".", "=", "!", ":", "-", "$", "X", " ", "not", '"', "\\"]
SYMS2 = ["a", "(", ")", "[", "]", ",", ";", '"', "\\", " "]

def exhaustive(syms, n):
    import itertools
    for k in range(0, n + 1):
        for tup in itertools.product(syms, repeat=k):
            yield "".join(tup)

LEAF_TEXTS = ["a", "b(1)", "p($X, $Y)", "$X = 1", "$X = b", "!", "fail", "nl", "not(a(1))", "not($X = 2)",
              "time(b(1))", "less_than($X, 4)", "$X < 4", "$X >= $Y", "print($X, b)", "q([1, 2, 3])",
              "r([$H | $T])", "s(\"x, y\")", "t(\\,)", "u(f(1, 2), g)", "$X == 2", "append($X, [a], $Y)",
              "nl()", "w(\"(\")", "x y", "élan(ö)"]

def rand_goal_text(rng, depth, sloppy=False):
    """goal text from the grammar: leaves, conjunctions, disjunctions, groups"""
    def sep(c):
        if not sloppy: return c + " "
        return rng.choice(["", " ", "  "]) + c + rng.choice(["", " ", "  "])
    def g(d):
        r = rng.random()
        if d <= 0 or r < 0.35:
            return rng.choice(LEAF_TEXTS)
        k = rng.randint(2, 4)
        if r < 0.6:
            return sep(",").join(g(d - 1) for _ in range(k))
        if r < 0.8:
            return sep(";").join(g(d - 1) for _ in range(k))
        inner = g(d - 1)
        if sloppy and rng.random() < 0.3: return "( " + inner + " )"
        return "(" + inner + ")"
    return g(depth)

def rand_rule_text(rng, sloppy=False):
    heads = ["h", "h(1)", "p($X)", "p($X, $Y)", "q([$H | $T], $Z)", "$X = 1", "!", "fail", "not(a)", "1", "h()",
             "less_than(1, 2)", "print(a)", "time(a)", "$X", "(h)", "h(", "p($X) ", ""]
    r = rng.random()
    if r < 0.25:
        t = rng.choice(heads + LEAF_TEXTS)
        return t + rng.choice([".", "", " .", ".."])
    neck = rng.choice([" :- ", ":-", " :-", ":- ", " :- ", " :- ", " : - ", " :-- "]) if sloppy else " :- "
    return rng.choice(heads) + neck + rand_goal_text(rng, rng.randint(0, 3), sloppy) + rng.choice([".", ".", ".", "", " ."])

MUT_CHARS = list("ab(),;.=!:-$X \"\\[]|") + ["not", ":-", "(", ")"]

def mutate(rng, s, n=1):
    for _ in range(n):
        r = rng.random()
        if not s or r < 0.35:
            k = rng.randint(0, len(s)); s = s[:k] + rng.choice(MUT_CHARS) + s[k:]
        elif r < 0.7:
            k = rng.randrange(len(s)); s = s[:k] + s[k + 1:]
        elif r < 0.9:
            k = rng.randrange(len(s)); s = s[:k] + rng.choice(MUT_CHARS) + s[k + 1:]
        else:
            i, j = sorted((rng.randrange(len(s)), rng.randrange(len(s))))
            s = s[:i] + s[j:] + s[i:j]
    return s

def readable(case):
    try:
        p = sx.parse(case)
        def dec(x):
            if isinstance(x, list): return "(" + " ".join(dec(y) for y in x) + ")"
            if x.startswith("s") and (x == "s" or x[1:].replace(".", "").isdigit()): return repr(unS(x))
            return x
        if p[0] in ("generate-goal", "parse-rule"):
            return "%s %s" % (p[0], dec(p[1]))
        return dec(p)
    except Exception:
        return case
