"""C18: parsers return a value or an error for every input, never panic (term level + goal/rule level)."""
from gen import combine
combine.export(["C18terms", "C18goals"], globals())
