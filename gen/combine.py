"""Combines the generators of sub-tasks into the generator of one property (tags are prefixed
with the sub-generator's name; relations / nontrivial / describe / known_class are dispatched)."""
import importlib, inspect

class Combined:
    def __init__(self, names):
        self.subs = [(n, importlib.import_module("gen." + n)) for n in names]
        self.RULE = " || ".join("[%s] %s" % (n, getattr(m, "RULE", "")) for n, m in self.subs)
        self.META = dict(assumptions=[a for n, m in self.subs for a in getattr(m, "META", {}).get("assumptions", [])])
        self.REL_STATS = {}
        self._owner = {}

    def cases(self, tier, rng):
        out = []
        for n, m in self.subs:
            for case, tag in m.cases(tier, rng):
                out.append((case, n + ":" + tag)); self._owner[case] = (n, m, tag)
        return out

    def _sub(self, case):
        return self._owner.get(case)

    def nontrivial(self, case, tag, result):
        o = self._sub(case)
        return bool(o) and o[1].nontrivial(case, o[2], result)

    def describe(self, case):
        o = self._sub(case)
        return o[1].describe(case) if o and hasattr(o[1], "describe") else case

    def known_class(self, case, tag):
        o = self._sub(case)
        return o[1].known_class(case, o[2]) if o and hasattr(o[1], "known_class") else None

    def relations(self, cases, impl, model):
        self.REL_STATS.clear()
        for n, m in self.subs:
            rel = getattr(m, "relations", None)
            if rel is None: continue
            idx = [k for k, (c, t) in enumerate(cases) if t.startswith(n + ":")]
            sc = [(cases[k][0], cases[k][1][len(n) + 1:]) for k in idx]
            si = [impl[k] for k in idx]
            args = (sc, si, [model[k] for k in idx]) if len(inspect.signature(rel).parameters) >= 3 else (sc, si)
            for v in rel(*args):
                if "tag" in v: v["tag"] = n + ":" + v["tag"]
                yield v
            for k, val in dict(getattr(m, "REL_STATS", {})).items():
                self.REL_STATS["%s.%s" % (n, k)] = val

def export(names, g):
    c = Combined(names)
    g.update(cases=c.cases, nontrivial=c.nontrivial, describe=c.describe, known_class=c.known_class,
             relations=c.relations, RULE=c.RULE, META=c.META, REL_STATS=c.REL_STATS)
