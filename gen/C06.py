"""C06: unification returns a most general unifier extending prior bindings (and C07's symmetry
relation on the same cases).  Cases: (useqr (ss) q($X,$Y,$Z,$P,$Q,$R) prior... (A B))."""
import itertools
from lib.sx import *
from lib import obs, refunify
from gen.universe import *

Q = cplx("q", X, Y, Z, var(4, "$X"), var(5, "$Y"), var(6, "$Z"))
QVARS = [("v", k) for k in range(1, 7)]

def shift(t, d=3):
    """the term as a renamed clause would carry it: ids moved out of the way"""
    p = parse(t)
    def go(x):
        if isinstance(x, list):
            if x and x[0] == "v": return ["v", str(int(x[1]) + d), x[2]]
            return [go(y) for y in x]
        return x
    return obs.to_text(go(p))

def mk(prior, a, b):
    pairs = " ".join("(%s %s)" % (p, q) for p, q in prior + [(a, b)])
    return "(useqr (ss) %s %s)" % (Q, pairs)
def mk_prior(prior):
    return "(useqr (ss) %s %s)" % (Q, " ".join("(%s %s)" % (p, q) for p, q in prior))

def needs_occurs_check(prior, a, b):
    """pairs whose unification would need an occurs check are outside C06/C07 (and make resolution diverge)"""
    try:
        s = {}
        for p, q in prior:
            if refunify.runify(refunify.to_r(parse(p)), refunify.to_r(parse(q)), s) != refunify.YES: return True
        return refunify.runify(refunify.to_r(parse(a)), refunify.to_r(parse(b)), s) == refunify.OCCURS
    except refunify.Bad:
        return True

def cases(tier, rng):
    u = universe()
    pr = priors()
    out = []
    frac = 0.04 if tier == "quick" else 1.0
    for p in pr:
        out.append((mk_prior(p), "prior"))
        for a, b in itertools.product(u, u):
            if rng.random() < frac and not needs_occurs_check(p, a, b):
                out.append((mk(p, a, b), "pair")); out.append((mk(p, b, a), "pair-swapped"))
            if rng.random() < frac * 0.3 and not needs_occurs_check(p, shift(a), b):
                out.append((mk(p, shift(a), b), "head-goal")); out.append((mk(p, b, shift(a)), "goal-head"))
    out += big_cases(tier, rng)
    seen, res = set(), []
    for c in out:
        if c[0] not in seen: seen.add(c[0]); res.append(c)
    return res

# ---- beyond the small universe: deep terms (depth <= 5), long lists (<= 12 elements, with and without tail variable), wide complex
#      terms (<= 7 arguments), long and non-ASCII atoms, integers beyond 2^53 and at the i64 limits, floats with many digits, variable
#      ids up to 46; each term against an instance, a generalisation (sub-terms replaced by variables), a copy with one leaf changed,
#      and an unrelated term ----
BIG_CONSTS = [atom("a"), atom("b"), atom("a_rather_long_atom_of_more_than_thirty_two_characters"), atom("Zo\u00eb \u65e5\u672c"), integer(0), integer(7),
              integer(2**31), integer(2**53 + 1), integer(-2**63), integer(2**63 - 1), flt(0.1), flt(-0.0), flt(1e300), flt(123456.789012345),
              flt(float(2**53)), EMPTY, flt(0.3), flt(0.1 + 0.2), flt(0.1), flt(0.10000000000000002), flt(1e-17), flt(2e-17), flt(0.0)]
def _bvar(i): return var(i, "$V%d" % i)
def big_term(rng, ids, depth):
    k = rng.random()
    if depth <= 0 or k < 0.22: return rng.choice(BIG_CONSTS) if (rng.random() < 0.6 or not ids) else _bvar(rng.choice(ids))
    if k < 0.3: return ANON
    if k < 0.62:
        n = rng.choice([1, 2, 3, 5, 7, 8, 9, 12])
        return cplx(rng.choice(["f", "g", "node"]), *[big_term(rng, ids, depth - 1 - (n > 3)) for _ in range(n)])
    n = rng.choice([1, 2, 4, 6, 9, 12])
    es = [big_term(rng, ids, depth - 1 - (n > 3)) for _ in range(n)]
    tl = rng.random()
    return lst(es, _bvar(rng.choice(ids)) if (tl < 0.3 and ids) else (ANON if tl < 0.36 else None))
def _paths(x, path, acc):
    """positions of proper sub-terms (arguments and list elements) in a parsed term"""
    if isinstance(x, list) and x:
        if x[0] == "c":
            for i in range(2, len(x)): acc.append(path + [i]); _paths(x[i], path + [i], acc)
        elif x[0] == "l" and x[1] != "nil":
            if x[4] != "1": acc.append(path + [1]); _paths(x[1], path + [1], acc)
            _paths(x[2], path + [2], acc)
    return acc
def _replace(x, path, new):
    import copy
    y = copy.deepcopy(x); cur = y
    for i in path[:-1]: cur = cur[i]
    cur[path[-1]] = new
    return y
def big_cases(tier, rng):
    out = []
    n = 160 if tier == "quick" else 4000
    for k in range(n):
        base = rng.choice([0, 0, 20, 40])
        ids = [base + i for i in range(1, 7)]
        if rng.random() < 0.3:    # ids congruent modulo 64 / 256 / 65536 (a table, mask or cast keyed by too little of the id)
            ids = rng.choice([[3, 5, 67, 69, 131, 133], [2, 258, 514, 66, 130, 6], [7, 65543, 71, 9, 65545, 135]])
        t = big_term(rng, ids, rng.choice([3, 4, 5]))
        pt = parse(t)
        paths = _paths(pt, [], [])
        partners = [big_term(rng, ids, 3)]
        if paths:
            # a generalisation: up to three sub-terms replaced by (possibly repeated) variables
            g = pt
            done = []
            for pa in rng.sample(paths, min(len(paths), rng.randint(1, 3))):
                if any(pa[:len(d)] == d or d[:len(pa)] == pa for d in done): continue   # not inside one another
                g = _replace(g, pa, parse(_bvar(rng.choice(ids)))); done.append(pa)
            partners.append(obs.to_text(g))
            # one leaf changed
            pa = rng.choice(paths)
            partners.append(obs.to_text(_replace(pt, pa, parse(rng.choice(BIG_CONSTS)))))
        # an instance: every variable replaced by a term without variables of its own
        inst = t
        for i in ids:
            if _bvar(i) in inst: inst = inst.replace(_bvar(i), big_term(rng, [], 2))
        partners.append(inst)
        prior = rng.choice([[], [], [(_bvar(ids[0]), _bvar(ids[1]))], [(_bvar(ids[2]), atom("a"))], [(_bvar(ids[1]), lst([_bvar(ids[3]), atom("b")], _bvar(ids[4])))],
                            [(_bvar(ids[1]), _bvar(ids[2])), (_bvar(ids[2]), _bvar(ids[0]))], [(_bvar(ids[3]), _bvar(ids[2])), (_bvar(ids[2]), _bvar(ids[4])), (_bvar(ids[4]), _bvar(ids[0]))]])
        for b in partners:
            if needs_occurs_check(prior, t, b): continue
            out.append((mk_prior(prior), "prior"))
            out.append((mk(prior, t, b), "big")); out.append((mk(prior, b, t), "big-swapped"))
    # chains of aliased variables closed by one more step, over ids that collide modulo a power of two
    for ids in ([3, 5, 67, 69, 131, 133], [2, 258, 514, 66, 130, 6], [7, 65543, 71, 9, 65545, 135], [1, 2, 3, 4, 5, 6]):
        vs = [_bvar(i) for i in ids]
        for _ in range(12 if tier == "quick" else 200):
            order = rng.sample(vs, rng.randint(3, 6))
            chain = [(order[k + 1], order[k]) if rng.random() < 0.7 else (order[k], order[k + 1]) for k in range(len(order) - 1)]
            last = (order[0], order[-1]) if rng.random() < 0.5 else (order[-1], order[0])
            out.append((mk_prior(chain), "prior"))
            out.append((mk(chain, last[0], last[1]), "big")); out.append((mk(chain, last[1], last[0]), "big-swapped"))
            out.append((mk(chain, last[0], atom("a")), "big"))
    # floats that differ in the last place(s)
    close = [(0.3, 0.1 + 0.2), (0.1, 0.10000000000000002), (1e-17, 2e-17), (0.0, 1e-17), (1.0, 1.0000000000000002), (1e300, 1.0000000000000002e300), (0.0, -0.0), (0.3, 0.3)]
    for x, y in close:
        for wrap in (lambda t: t, lambda t: cplx("f", t), lambda t: lst([atom("a"), t]), lambda t: lst([t], _bvar(1))):
            out.append((mk_prior([]), "prior"))
            out.append((mk([], wrap(flt(x)), wrap(flt(y))), "big")); out.append((mk([], wrap(flt(y)), wrap(flt(x))), "big-swapped"))
        out.append((mk_prior([(_bvar(2), flt(x))]), "prior"))
        out.append((mk([(_bvar(2), flt(x))], _bvar(2), flt(y)), "big")); out.append((mk([(_bvar(2), flt(x))], flt(y), _bvar(2)), "big-swapped"))
    return out

RULE = ("ordered pairs of the 119-term universe (atoms, integers, floats, three variables, $_, f/1, g/2, lists of length 0-3 with "
        "and without tail variable incl. $_ tails, nested and empty lists) under 18 prior substitutions built by earlier "
        "unifications (quick: a 4% sample, each with its swapped pair; thorough: all 254898), plus the same with the left term "
        "carrying fresh variable ids as a renamed clause head does, on either side. Oracle: a reference unifier with occurs "
        "check over the abstract list view (python twin of the Rust probe; pairs that need an occurs check are skipped): same "
        "success/failure; on success every prior binding kept verbatim, no cycle, and the resolved values of all six variables "
        "equal the reference mgu's up to renaming of unbound variables (compared when no `$_` is involved). "
        "Non-trivial = unification succeeds and binds at least one variable to a non-variable term.")

def nontrivial(case, tag, result):
    return tag != "prior" and "(ok (some" in result and ("(a " in result.split("(ss", 1)[-1] or "(l " in result.split("(ss", 1)[-1] or "(c " in result.split("(ss", 1)[-1])

REL_STATS = {}
def _prior_and_pair(case):
    c = parse(case)
    pairs = c[3:]
    return pairs[:-1], pairs[-1]

def relations(cases, impl):
    REL_STATS.clear(); REL_STATS.update(compared_with_reference=0, skipped_occurs_check=0, mgu_compared=0, symmetric_pairs_compared=0)
    res_of = {case: res for (case, tag), (out, res) in zip(cases, impl)}
    for (case, tag), (out, res) in zip(cases, impl):
        if tag == "prior" or not case.startswith("(useqr "): continue   # corpus lines of other shapes: model-vs-implementation only
        prior, (a, b) = _prior_and_pair(case)
        try:
            s = {}
            ok = True
            for p, q in prior:
                if refunify.runify(refunify.to_r(p), refunify.to_r(q), s) != refunify.YES: ok = False
            if not ok: continue
            r = refunify.runify(refunify.to_r(a), refunify.to_r(b), s)
        except refunify.Bad:
            continue
        if r == refunify.OCCURS: REL_STATS["skipped_occurs_check"] += 1; continue
        REL_STATS["compared_with_reference"] += 1
        pr = obs.parse_result(res)
        why = None
        if pr[0] in ("panic", "diverged"): why = "unification ended in %s" % pr[0]
        elif pr[0] == "none" and r == refunify.YES: why = "unification fails although the terms have a unifier extending the prior bindings"
        elif pr[0] == "some" and r == refunify.NO: why = "unification succeeds although the terms have no unifier"
        elif pr[0] == "some":
            ent = pr[1]
            if obs.has_var_cycle(ent): why = "the result contains a binding cycle"
            else:
                ptxt = "(useqr (ss) %s %s)" % (Q, " ".join(obs.to_text(x) for x in prior)) if prior else "(useqr (ss) %s )" % Q
                pres = res_of.get(mk_prior([(obs.to_text(p), obs.to_text(q)) for p, q in prior]))
                if pres:
                    pp = obs.parse_result(pres)
                    if pp[0] == "some":
                        for k, e in enumerate(pp[1]):
                            if e is not None and (k >= len(ent) or ent[k] != e): why = "an earlier binding was changed or dropped"
                if why is None:
                    try:
                        iv = [refunify.to_r(x) for x in pr[2][0][2:]] if pr[2] else None
                        rv = [refunify.apply(v, s) for v in QVARS]
                        if iv is not None and not any(refunify.has_anon(t) for t in iv + rv):
                            REL_STATS["mgu_compared"] += 1
                            if refunify.canon([refunify.norm(t) for t in iv]) != refunify.canon(rv):
                                why = "the result is not a most general unifier: resolved variables %s, reference %s" % (refunify.canon(iv), refunify.canon(rv))
                    except refunify.Bad:
                        pass
        if why is None and tag in ("pair-swapped", "goal-head", "big-swapped"):
            # C07: the other order, when it is among the cases
            other = mk([(obs.to_text(p), obs.to_text(q)) for p, q in prior], obs.to_text(b), obs.to_text(a))
            ores = res_of.get(other)
            if ores is not None:
                REL_STATS["symmetric_pairs_compared"] += 1
                po = obs.parse_result(ores)
                if po[0] in ("some", "none") and pr[0] in ("some", "none") and (po[0] == "some") != (pr[0] == "some"):
                    why = "unifying A with B and B with A disagree on success"
        if why:
            yield dict(case=case, tag=tag, why=why, implementation=dict(result=res))
