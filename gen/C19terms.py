"""C19 at term level: the text of a canonical term parses back to it (theorem C19_roundtrip_terms), and Display gives that text."""
from gen import parse_common as pc
from lib import sx

META = {"assumptions": ["only integers are claimed (theorem C19_integer_roundtrip_terms_partial); the text is the decimal "
                        "text Rust's Display gives for i64, produced here by python"]}
_VAL = {}

def cases(tier, rng):
    _VAL.clear()
    vals = [0, 1, -1, 5, -5, 9, 10, -10, 99, 100, 2**63 - 1, -2**63, 2**62, -2**62, 2**53, 2**53 + 1, 10**18, -10**18]
    vals += list(range(-300, 301))
    n = 3000 if tier == "quick" else 60000
    for _ in range(n):
        k = rng.randint(1, 63)
        vals.append(rng.randint(-2**k, 2**k - 1))
    out = []
    for v in dict.fromkeys(vals):
        for op, ctx in (("parse-term", "alone"), ("parse-args", "arg")):
            c = pc.case(op, str(v)); _VAL[c] = (v, ctx); out.append((c, "int/" + ctx))
        for op, text, ctx in (("parse-list", "[%d]" % v, "list"), ("parse-subgoal", "$X = %d" % v, "infix"),
                              ("parse-complex", "f(%d, %d)" % (v, -v if v > -2**63 else 0), "complex")):
            c = pc.case(op, text); _VAL[c] = (v, ctx); out.append((c, "int/" + ctx))
    # canonical terms (the class of Proofs/TermRoundtripMain.v, plus `$_` as a list tail): Display gives the canonical
    # text, and the text parses back to the term
    from lib.sx import atom, integer, var, cplx, lst, ANON, EMPTY, S
    ATOMS = ["a", "b", "abc", "x_1", "aB9", "z", "New York", "Abc", "1a", "R2-D2", "well-known", "555-1234", "2023-09-22", "1-2", "a-1"]
    VNAMES = ["$X", "$Y", "$Tail", "$x1", "$A_b"]
    def canon(depth):
        """-> (wire term, text)"""
        r = rng.random()
        if depth <= 0 or r < 0.4:
            k = rng.random()
            if k < 0.3: a = rng.choice(ATOMS); return atom(a), a
            if k < 0.55: v = rng.choice([0, 1, -1, 42, -17, 2**63 - 1, -2**63, rng.randint(-10**6, 10**6)]); return integer(v), str(v)
            if k < 0.85: n = rng.choice(VNAMES); return var(0, n), n
            return ANON, "$_"
        if r < 0.7:
            n = rng.randint(0, 3)
            el = [canon(depth - 1) for _ in range(n)]
            if n and rng.random() < 0.4:
                if rng.random() < 0.5: tn = rng.choice(VNAMES); tail, tt = var(0, tn), tn
                else: tail, tt = ANON, "$_"
                return lst([e[0] for e in el], tail), "[" + ", ".join(e[1] for e in el) + " | " + tt + "]"
            return (lst([e[0] for e in el]) if n else EMPTY), "[" + ", ".join(e[1] for e in el) + "]"
        n = rng.randint(0, 3)
        f = rng.choice(["f", "g", "point", "h_2"])
        el = [canon(depth - 1) for _ in range(n)]
        return cplx(f, *[e[0] for e in el]), f + "(" + ", ".join(e[1] for e in el) + ")"
    # Display of floats (shortest decimal that reads back, no exponent): model against implementation on decimal
    # fractions, powers of ten and two, neighbours of binade boundaries, subnormals, extremes and random bit patterns
    from lib.sx import flt, fbits
    import struct
    fl = [0.1, 0.2, 0.3, 1/3, 2/3, 0.7, 1e23, 1e22, 1e21, 2.0**70, 123456789.123456789, 0.000001, 1e-7, 5e-324, 2.2250738585072014e-308,
          1.7976931348623157e308, 9007199254740993.0, 4.35, 0.285, 1.005, 2.675, 1e15, 1e16, 1e17, 123456.789e3, 3.141592653589793,
          2.718281828459045, 100.0, 0.5, 1.0, -0.1, -2.5, 8.41e21, 9.5367431640625e-07, 2.0**-1074, 2.0**-1022, 2.0**52, 2.0**53 + 2]
    for k in range(-30, 31): fl += [10.0 ** k, 2.0 ** k, 2.0 ** k * (1 + 2.0 ** -52), 2.0 ** k * (1 - 2.0 ** -53)]
    nf = 500 if tier == "quick" else 40000
    for _ in range(nf):
        r = rng.random()
        if r < 0.35: fl.append(round(rng.uniform(-1000, 1000), rng.randint(0, 6)))
        elif r < 0.55: fl.append(rng.randint(1, 10**rng.randint(1, 17)) / 10.0 ** rng.randint(0, 20))
        elif r < 0.75: fl.append(rng.uniform(0, 1) * 10.0 ** (rng.randint(-300, 300) if rng.random() < 0.2 else rng.randint(-25, 25)))
        else:
            b = rng.getrandbits(64)
            if (b >> 52) & 0x7ff != 0x7ff: fl.append(struct.unpack("<d", struct.pack("<Q", b))[0])
    fl += [0.00001, -0.00007, 0.00054858, 1e-5, 1.5e-5, 9.999e-5, 1.0e-4, 1.25e-10, 3.5e-20, 0.0001, 0.00010001, 123456789012.5, 1e15 + 0.5, 4503599627370496.5]
    for x in dict.fromkeys(fl):
        out.append(("(show-term %s)" % flt(x), "float/show"))
        # Display followed by parse_term of the text written: a float with a fractional part must come back as the same float
        for t in (flt(x), cplx("f", flt(x), atom("a")), lst([flt(x)])):
            c3 = "(show-parse %s)" % t; _VAL[c3] = ("show-parse", t, x); out.append((c3, "float/show-parse"))
    m = 2500 if tier == "quick" else 40000
    seen = set()
    for _ in range(m):
        t, text = canon(rng.choice([1, 2, 2, 3]))
        if text in seen: continue
        seen.add(text)
        c1 = "(show-term %s)" % t; _VAL[c1] = ("show", "(ok %s)" % S(text)); out.append((c1, "canonical/show"))
        c2 = pc.case("parse-term", text); _VAL[c2] = ("parse", "(ok %s)" % t); out.append((c2, "canonical/parse"))
    return out

RULE = ("Decimal texts of 64-bit integers (extremes, -300..300, random magnitudes 2^1..2^63) parsed alone, as an argument, in a "
        "list, as operand of `=`, and as arguments of f(v, -v). Relation on the implementation's results: the integer comes "
        "back in every context. Canonical terms (atoms [a-z][A-Za-z0-9_]*, integers, variables, $_, complex terms, lists with and "
        "without tail variable or `$_` tail, nested to depth 3): Display of the term gives its canonical text and that text parses "
        "back to the term (theorem C19_roundtrip_terms; both checked on the implementation). Display of floats - the shortest "
        "decimal that reads back, written without exponent - model against implementation on decimal fractions, powers of ten and "
        "two with their neighbours, subnormals, extremes and random bit patterns; and, on the implementation, Display followed by parse_term "
        "of the text written: a float with a fractional part (also below 1e-4, also inside f(..) and [..]) comes back as the same float. Non-trivial = negative or at least 10 digits.")

def nontrivial(case, tag, result):
    if tag.startswith("canonical"): return "(l " in case or "(c " in case or "[" in pc.uncase(case)[1] if case.startswith("(parse") else True
    v = _VAL.get(case, (0, None))[0]
    if v == "show-parse": return True
    return v < 0 or abs(v) >= 10**9

REL_STATS = {}
def sx_text(p):
    return "(" + " ".join(sx_text(x) for x in p) + ")" if isinstance(p, list) else p
def relations(cases, impl):
    REL_STATS.clear()
    for (case, tag), (out, res) in zip(cases, impl):
        v, ctx = _VAL.get(case, (None, None))[:2]
        if v is None: continue
        if v == "show-parse":
            _, t, x = _VAL[case]
            if x != x or x in (float("inf"), float("-inf")) or x == int(x): continue      # integer-valued floats print without a period (F2): outside
            REL_STATS["float_roundtrips"] = REL_STATS.get("float_roundtrips", 0) + 1
            try: r = sx.parse(res)
            except Exception: r = None
            if not (isinstance(r, list) and len(r) == 3 and r[0] == "ok" and sx_text(r[2]) == "(ok %s)" % t):
                yield dict(case=case, tag=tag, why="a float with a fractional part is printed as a text that does not read back as the same float",
                           implementation=dict(result=res, expected_parse="(ok %s)" % t))
            continue
        if v in ("show", "parse"):
            if res != ctx:
                yield dict(case=case, tag=tag, why=("Display of a canonical term is not its canonical text" if v == "show"
                                                    else "the canonical text of a term does not parse back to the term"),
                           implementation=dict(result=res, expected=ctx))
            continue
        i = "(i %d)" % v
        want = {"alone": "(ok %s)" % i, "arg": "(ok (%s))" % i,
                "list": "(ok (l %s (l nil nil 0 0) 1 0))" % i,
                "infix": "(ok (bip %s (v 0 %s) %s))" % (sx.S("unify"), sx.S("$X"), i),
                "complex": "(ok (c (a %s) %s (i %d)))" % (sx.S("f"), i, -v if v > -2**63 else 0)}[ctx]
        if res != want:
            yield dict(case=case, tag=tag, why="the integer %d does not come back from context `%s`" % (v, ctx),
                       implementation=dict(result=res, expected=want))

def describe(case):
    op, s = pc.uncase(case)
    return "%s(%r)" % (op.replace("-", "_"), s)
