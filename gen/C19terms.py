"""C19 at term level, integers only (partial): the text of an integer parses back to it."""
from gen import parse_common as pc
from lib import sx

META = {"assumptions": ["only integers are claimed (theorem C19_integer_roundtrip_terms_partial); the text is the decimal "
                        "text Rust's Display gives for i64, produced here by python"]}
_VAL = {}

def cases(tier, rng):
    _VAL.clear()
    vals = [0, 1, -1, 5, -5, 9, 10, -10, 99, 100, 2**63 - 1, -2**63, 2**62, -2**62, 2**53, 2**53 + 1, 10**18, -10**18]
    vals += list(range(-300, 301))
    n = 3000 if tier == "quick" else 60000
    for _ in range(n):
        k = rng.randint(1, 63)
        vals.append(rng.randint(-2**k, 2**k - 1))
    out = []
    for v in dict.fromkeys(vals):
        for op, ctx in (("parse-term", "alone"), ("parse-args", "arg")):
            c = pc.case(op, str(v)); _VAL[c] = (v, ctx); out.append((c, "int/" + ctx))
        for op, text, ctx in (("parse-list", "[%d]" % v, "list"), ("parse-subgoal", "$X = %d" % v, "infix"),
                              ("parse-complex", "f(%d, %d)" % (v, -v if v > -2**63 else 0), "complex")):
            c = pc.case(op, text); _VAL[c] = (v, ctx); out.append((c, "int/" + ctx))
    return out

RULE = ("Decimal texts of 64-bit integers (extremes, -300..300, random magnitudes 2^1..2^63) parsed alone, as an argument, in a "
        "list, as operand of `=`, and as arguments of f(v, -v). Relation on the implementation's results: the integer comes "
        "back in every context. Non-trivial = negative or at least 10 digits.")

def nontrivial(case, tag, result):
    v, _ = _VAL.get(case, (0, None))
    return v < 0 or abs(v) >= 10**9

def relations(cases, impl):
    for (case, tag), (out, res) in zip(cases, impl):
        v, ctx = _VAL.get(case, (None, None))
        if v is None: continue
        i = "(i %d)" % v
        want = {"alone": "(ok %s)" % i, "arg": "(ok (%s))" % i,
                "list": "(ok (l %s (l nil nil 0 0) 1 0))" % i,
                "infix": "(ok (bip %s (v 0 %s) %s))" % (sx.S("unify"), sx.S("$X"), i),
                "complex": "(ok (c (a %s) %s (i %d)))" % (sx.S("f"), i, -v if v > -2**63 else 0)}[ctx]
        if res != want:
            yield dict(case=case, tag=tag, why="the integer %d does not come back from context `%s`" % (v, ctx),
                       implementation=dict(result=res, expected=want))

def describe(case):
    op, s = pc.uncase(case)
    return "%s(%r)" % (op.replace("-", "_"), s)
