"""C03: not(G) succeeds once, without bindings, iff G has no answer."""
from lib.sx import *
from lib import histcheck
from gen import progs, histgen
from gen.progs import *

SPEC_COLUMN_IS_ORACLE_INPUT = True
equivalent = histcheck.equivalent
describe = histgen.describe
REL_STATS = {}
relations = histgen.make_relations(("answers", "exhausted", "strings"), REL_STATS)

def inner_goals():
    n, e = C("n", X), C("e", X)
    return [n, e, C("n", Y), C("k", X), U(X, i(2)), U(Y, i(5)), U(Y, X), bip("greater_than", X, i(1)), bip("less_than", X, i(1)),
            FAIL, AND(n, e), AND(C("n", Y), U(Y, X)), OR(e, U(X, i(1))), OR(FAIL, bip("equal", X, i(3))), AND(e, bip("greater_than", X, i(2))),
            C("mem", X, lst([i(1), i(3)])), AND(C("n", Y), bip("greater_than", Y, X)), C("nosuch", X), OR(AND(e, FAIL), U(X, i(7)))]

def cases(tier, rng):
    out = []
    for g in inner_goals():
        ng = NOT(g)
        for body in (ng, AND(C("n", X), ng), AND(ng, C("n", X)), AND(C("n", X), ng, C("e", Y)), OR(ng, C("e", X)),
                     AND(C("n", X), OR(ng, U(X, i(3)))), AND(C("n", X), ng, ng), AND(ng, U(X, i(4))), AND(U(Y, i(1)), ng, C("n", Y))):
            rules = list(LIB) + [rule(cplx("a", X, Y), body), fact("a", i(9), i(9))]
            out.append((single_query_case(rules, [atom("a"), var(0, "$Q"), var(0, "$R")], 7), "not-shape"))
    # double (and triple) negation: not(not(G)) succeeds iff G has an answer, and still leaves every binding as it was
    for g in inner_goals():
        nn = NOT(NOT(g))
        for body in (nn, AND(nn, C("n", X)), AND(nn, U(X, i(4))), AND(C("n", X), nn), AND(nn, C("n", X), C("e", Y)), OR(nn, C("e", X)),
                     NOT(nn), AND(NOT(nn), C("n", X)), AND(U(Y, i(1)), nn, C("n", Y))):
            rules = list(LIB) + [rule(cplx("a", X, Y), body), fact("a", i(9), i(9))]
            out.append((single_query_case(rules, [atom("a"), var(0, "$Q"), var(0, "$R")], 5), "not-not-shape"))
    n = 500 if tier == "quick" else 10000
    out += histgen.random_cases(rng, n, dict(allow_cut=False, allow_print=False), must="(op not")
    # beyond the small shapes: not over goals that search predicates of 40 clauses and chains 30 links deep, negations nested
    # 6-9 deep, a not as the 30th goal of a body, 40 candidates filtered by a not
    from gen import C01
    big = C01.large_kb()
    deep = lambda g, k: g if k == 0 else NOT(deep(g, k - 1))
    zero = C("zero")
    for body in (AND(C("num", X), NOT(C("reach", X, i(31))), U(Y, X)), AND(C("num", X), NOT(C("reach", i(25), X)), U(Y, X)),
                 AND(C("num", X), NOT(AND(C("num", Y), bip("greater_than", Y, X))), U(Y, X)), AND(C("n", X), deep(C("reach", X, i(31)), 6), U(Y, X)),
                 AND(C("n", X), deep(C("reach", i(31), X), 7), U(Y, X)), AND(C("n", X), deep(C("e", X), 9), U(Y, X)),
                 AND(C("n", X), *([zero] * 30), NOT(C("e", X)), U(Y, X)), AND(C("num", X), NOT(NOT(C("many", X))), U(Y, X))):
        rules = big + [rule(cplx("a", X, Y), body), fact("a", i(99), i(99))]
        out.append((single_query_case(rules, [atom("a"), var(0, "$Q"), var(0, "$R")], 45), "not-large"))
    # recursion THROUGH not, 60-75 levels deep: even(z). even(s($N)) :- not(even($N)).  and over a list
    N_ = var(0, "$N"); T_ = var(0, "$T")
    par = [fact("even", atom("z")), rule(cplx("even", cplx("s", N_)), NOT(C("even", N_))),
           fact("evenlen", EMPTY), rule(cplx("evenlen", lst([ANON], T_)), NOT(C("evenlen", T_)))]
    def peano(k):
        t = atom("z")
        for _ in range(k): t = cplx("s", t)
        return t
    for k in ([3, 62, 63, 64, 65, 66, 67, 70] if tier == "quick" else list(range(55, 80))):
        out.append((single_query_case(par, [atom("even"), peano(k)], 2), "not-deep"))
        out.append((single_query_case(par, [atom("evenlen"), lst([i(1)] * k)], 2), "not-deep"))
    # not over comparisons of integers that differ by one above 2^53
    st = [fact("stamp", i(v)) for v in (2**53, 2**53 + 1, 2**53 + 2, 2**62, 2**62 + 1, 5)]
    A_, B_ = var(0, "$A"), var(0, "$B")
    for cmpn in ("equal", "less_than", "greater_than", "less_than_or_equal"):
        rules = st + [rule(cplx("d", A_, B_), AND(C("stamp", A_), C("stamp", B_), NOT(bip(cmpn, A_, B_))))]
        out.append((single_query_case(rules, [atom("d"), var(0, "$P"), var(0, "$Q")], 40), "not-large"))
    return out

RULE = ("(0) large shapes: not over goals that search 40-clause predicates and 30-link chains, negations nested 6-9 deep, a not as the 31st goal of a body, 40 candidates filtered by a not, recursion through not 60-75 levels deep, not over comparisons of integers above 2^53; "
        "(a) not(G) for 19 goals G (calls with 0/1/many answers, with and without bindings to query variables, "
        "conjunctions, disjunctions, unifications, comparisons, a recursive call, an unknown predicate) at 9 positions of "
        "a clause body (alone, after / before / between multi-answer goals, in a disjunction, twice, followed by a binding "
        "of the same variable), each query asked 7 times; the same with not(not(G)) and not(not(not(G))); (b) random cut-free programs containing not(..). Oracle: every "
        "request's answer equals the reference search's - not(G) contributes the unchanged substitution once iff G has no "
        "answer. Non-trivial = the query has an answer that passed through a not(..).")

def nontrivial(case, tag, result):
    return "(op not" in case and "(ans (ss" in result
