"""C21: loading a file equals parsing its rules one by one.

Cases (formats in harness/src/ops_reader.rs, ocaml/ops_reader.ml):
  function level  (strip ..) (checklast ..) (trimerr ..) (unmatched ..) (separate ..)
  file level      (readfile <eol> (<line>..) (<text>..) <layout>)
"""
import itertools
from lib.sx import S, unS, parse

META = dict(assumptions=[
    "the i32 counters of rule_reader.rs are unbounded integers in the model (exact below 2^31 brackets / quotes per file)",
    "a file is the list of its lines as BufRead::lines yields them; lines that are not valid UTF-8 and files that "
    "cannot be opened are not modelled",
    "parse_rule is a parameter of the model of load_kb_from_file; that loading equals parsing the rule texts one by one "
    "is checked on the implementation itself (relation `load = each`), the model-level theorem covers the rule TEXTS",
])

# ---------------------------------------------------------------- small helpers
def L(items): return "(%s)" % " ".join(items)
def strs(xs): return L([S(x) for x in xs])

def strip_case(line, rd, sd): return "(strip %s %d %d)" % (S(line), rd, sd)
def sep_case(text): return "(separate %s)" % S(text)
def readfile(eol, lines, texts, layout="-"):
    return "(readfile %s %s %s %s)" % (eol, strs(lines), strs(texts), layout)

WS_CHARS = [" ", "\t", " ", "　", "\r", " "]

# ---------------------------------------------------------------- generated programs
ATOMS = ["a", "b", "foo", "bar", "Godwin", "Harold", "x1", "r", "p", "q", "male", "parent"]
QUOTED = ['"hello world"', '"a, b"', '"50% off"', '"see #1"', '"x // y"', '"Mr. X."', '"1.5"', '"a; b ="',
          '"q, r."', '"tab\there"']
# brackets between quotes: the reader counts them (a finding, outside the domain of the theorem)
QUOTED_BRACKET = ['"f(x"', '"a) b"', '"[1"']
VARS = ["$X", "$Y", "$Z", "$In", "$Out", "$H", "$T", "$_"]
FLOATS = ["1.5", "0.25", "12.75", "3.0", "100.125", "7.5", "1.95", "9.5", "19.9", "0.9", "9.0"] + \
         ["%d.%d" % (d, e) for d in range(10) for e in range(10)]   # every digit on either side of the point
INTS = ["0", "1", "5", "27", "100"]

def gen_term(rng, depth=0):
    k = rng.random()
    if depth >= 2: k *= 0.62
    if k < 0.14: return rng.choice(ATOMS)
    if k < 0.26: return rng.choice(VARS)
    if k < 0.38: return rng.choice(FLOATS)
    if k < 0.48: return rng.choice(INTS)
    if k < 0.58: return rng.choice(QUOTED_BRACKET) if rng.random() < 0.02 else rng.choice(QUOTED)
    if k < 0.62: return rng.choice(["-3.5", "-7", "+2.5"])
    if k < 0.80:
        n = rng.randint(0, 3)
        el = [gen_term(rng, depth + 1) for _ in range(n)]
        sep = rng.choice([", ", ","])
        if n and rng.random() < 0.4:
            return "[" + sep.join(el) + " | " + rng.choice(["$T", "$Rest"]) + "]"
        return "[" + sep.join(el) + "]"
    n = rng.randint(1, 3)
    sep = rng.choice([", ", ", ", ","])
    return rng.choice(ATOMS) + "(" + sep.join(gen_term(rng, depth + 1) for _ in range(n)) + ")"

def gen_complex(rng):
    n = rng.randint(1, 3)
    return rng.choice(ATOMS) + "(" + ", ".join(gen_term(rng, 1) for _ in range(n)) + ")"

def gen_goal(rng):
    k = rng.random()
    if k < 0.30: return gen_complex(rng)
    if k < 0.50:
        return "%s = %s" % (rng.choice(VARS[:7]), gen_term(rng, 1))
    if k < 0.62:
        return "%s %s %s" % (rng.choice(VARS[:7]), rng.choice(["==", "<=", ">=", "<", ">"]),
                             rng.choice(FLOATS + INTS + VARS[:3]))
    if k < 0.74:
        return "%s = %s %s %s" % (rng.choice(VARS[:7]), rng.choice(VARS[:3] + FLOATS), rng.choice(["+", "-", "*", "/"]),
                                  rng.choice(FLOATS + INTS))
    if k < 0.80: return "!"
    if k < 0.84: return rng.choice(["fail", "nl"])
    if k < 0.92:
        return "print(%s)" % ", ".join([rng.choice(['"%s and %s"', "%s", '"value: %s."'])] + [rng.choice(VARS[:5])])
    return "not(%s)" % gen_complex(rng)

def gen_rule(rng):
    head = gen_complex(rng)
    if rng.random() < 0.3:
        return head + "."
    n = rng.randint(1, 4)
    goals = [gen_goal(rng) for _ in range(n)]
    sep = ", " if rng.random() < 0.8 else "; "
    return head + " :- " + sep.join(goals) + "."

# ---------------------------------------------------------------- lexical state, as in Spec/SpecLoad.v
def lex_step(st, c):
    rd, sd, q = st
    if c == "(": return (rd + 1, sd, q)
    if c == "[": return (rd, sd + 1, q)
    if c == ")": return (rd - 1, sd, q)
    if c == "]": return (rd, sd - 1, q)
    if c == '"': return (rd, sd, not q)
    return st
def lex_scan(st, s):
    for c in s: st = lex_step(st, c)
    return st
def outside(st): return st[0] == 0 and st[1] == 0 and not st[2]

def cut_points(text, token_boundaries=True):
    """positions p (0 < p < len) such that text[:p] ends in a continuation character outside quotes;
    with token_boundaries only where white space follows or the character is a comma"""
    pts = []
    st = (0, 0, False)
    for i, c in enumerate(text[:-1]):
        st = lex_step(st, c)
        if c in "-,;=" and not st[2]:
            if (not token_boundaries) or text[i + 1] == " " or c == ",":
                pts.append(i + 1)
        elif c == "." and not st[2] and (st[0] > 0 or st[1] > 0) and text[i + 1] == " " and token_boundaries:
            pts.append(i + 1)      # a period INSIDE brackets ends no rule: the line may break after it (`[Mr., Dr.` / `Jekyll]`)
    return pts

COMMENTS = ["# a comment", "% note: r(1).", "// see p(2), q.", "#", "%%% (unbalanced [", "// \"quote", "# ends in ,",
            "% x = 1.5"]

def gen_ws(rng, maxlen=4, allow_empty=True):
    n = rng.randint(0 if allow_empty else 1, maxlen)
    return "".join(rng.choice([" ", " ", " ", "\t", " ", "　"]) for _ in range(n))

def gen_blank(rng, may_comment):
    ws = gen_ws(rng, 3)
    c = rng.choice(COMMENTS) if (may_comment and rng.random() < 0.6) else ""
    return (ws, c)

def gen_layout(rng, texts, cut_prob=0.5, token_boundaries=True):
    """-> (layout as python structure, lines)"""
    rls = []
    for t in texts:
        pts = [p for p in cut_points(t, token_boundaries) if rng.random() < cut_prob]
        bodies = []
        prev = 0
        for p in pts:
            bodies.append(t[prev:p]); prev = p
        bodies.append(t[prev:])
        decos = []
        st = (0, 0, False)
        for b in bodies:
            before = [gen_blank(rng, outside(st)) for _ in range(rng.choice([0, 0, 0, 1, 2]))]
            st = lex_scan(st, b)
            cm = rng.choice(COMMENTS) if (outside(st) and rng.random() < 0.35) else ""
            decos.append((before, gen_ws(rng, 6), gen_ws(rng, 2), cm))
        rls.append((decos, [len(b) for b in bodies[:-1]]))
    trailer = [gen_blank(rng, True) for _ in range(rng.choice([0, 0, 1, 2]))]
    return (rls, trailer)

def blank_sx(b): return "(b %s %s)" % (S(b[0]), S(b[1]))
def deco_sx(d): return "(d %s %s %s %s)" % (L([blank_sx(b) for b in d[0]]), S(d[1]), S(d[2]), S(d[3]))
def layout_sx(lay):
    rls, trailer = lay
    out = []
    for decos, lens in rls:
        out.append("(rl %s%s)" % (deco_sx(decos[0]),
                                  "".join(" (%d %s)" % (n, deco_sx(d)) for n, d in zip(lens, decos[1:]))))
    return "(layout %s %s)" % (L(out), L([blank_sx(b) for b in trailer]))

def render(lay, texts):
    """the lines of the file - the python twin of SpecLoad.render (the model side checks that they agree)"""
    rls, trailer = lay
    lines = []
    for (decos, lens), t in zip(rls, texts):
        pos = 0
        bodies = []
        for n in lens:
            bodies.append(t[pos:pos + n]); pos += n
        bodies.append(t[pos:])
        for d, b in zip(decos, bodies):
            for ws, c in d[0]: lines.append(ws + c)
            lines.append(d[1] + b + d[2] + d[3])
    for ws, c in trailer: lines.append(ws + c)
    return lines

# ---------------------------------------------------------------- the corpus of hand-written programs
HAND_TEXTS = [
    ['p($X) :- $X = 5.'],
    ['p($X) :- $X = 1.5, r(1).'],
    ['foo(a, b).', 'r(1).'],
    ['p($X) :- $X = "a,# b", q(1).'],
    ['calculate($X, $Y, $Out) :- $A = $X + $Y, $B = $A - 6, $C = $B * 3.4, $Out = $C / 3.4.'],
    ['show($In) :- $In = [$H | $T], print(%s, $H), nl, show($T).', 'show([]) :- print(------------), nl.'],
    ['data([27,74,17,33,94]).'],
    ['check($Pr, $V) :- print(" --> \'%s\' and \'%s\' do not agree.", $Pr, $V).'],
    # comment characters as ordinary text inside brackets, at places where a line may break
    ['tagged(post1, #rust, prolog).', 'enc([a, %20, b], %s., $R).', 'share(x, //server/share, y).'],
    # periods inside brackets, followed by a space: a line may end there without ending the rule
    ['titles([Mr., Mrs., Dr. Jekyll, Pr. X]).', 'abbr(etc. and so on, e.g. this).'],
    # non-ASCII text (bytes and characters differ)
    ['city(\u6e0b\u8c37, \u6771\u4eac).', 'p\u00e8re(\u00c9ric, Zo\u00e9) :- m\u00e8re(Zo\u00e9, $X), $X = "\u00e9# x".'],
]

# ---------------------------------------------------------------- cases
def small_strings(alphabet, maxlen):
    for n in range(maxlen + 1):
        for tup in itertools.product(alphabet, repeat=n):
            yield "".join(tup)

def mutate_lines(rng, lines):
    """make a (usually) illegal file out of a legal one"""
    lines = list(lines)
    if not lines: return ["a("]
    k = rng.randrange(len(lines))
    m = rng.randrange(9)
    ln = lines[k]
    if m == 0 and len(ln) > 1:      # cut anywhere
        p = rng.randrange(1, len(ln)); lines[k:k + 1] = [ln[:p], ln[p:]]
    elif m == 1:                    # drop a character
        if ln:
            p = rng.randrange(len(ln)); lines[k] = ln[:p] + ln[p + 1:]
    elif m == 2:                    # insert a syntax character
        p = rng.randrange(len(ln) + 1); lines[k] = ln[:p] + rng.choice('()[]".,;=-#%/\\ ') + ln[p:]
    elif m == 3:                    # a comment anywhere
        p = rng.randrange(len(ln) + 1); lines[k] = ln[:p] + rng.choice(COMMENTS)
    elif m == 4:                    # join with the next line
        if k + 1 < len(lines): lines[k:k + 2] = [ln + lines[k + 1]]
    elif m == 5:                    # drop the line
        del lines[k]
    elif m == 6:                    # duplicate
        lines.insert(k, ln)
    elif m == 7:                    # comment line in the middle
        lines.insert(k, rng.choice(COMMENTS))
    else:                           # remove the final period of the file
        last = len(lines) - 1
        while last >= 0 and "." not in lines[last]: last -= 1
        if last >= 0:
            p = lines[last].rfind("."); lines[last] = lines[last][:p] + lines[last][p + 1:]
    return lines

def cases(tier, rng):
    thorough = tier != "quick"
    out = []
    # ---- (1) bounded-exhaustive, function level
    a1 = ['a', '(', ')', '[', ']', '"', '#', '%', '/', ' ', '.']
    for s in small_strings(a1, 3):
        out.append((strip_case(s, 0, 0), "strip-small"))
    for s in small_strings(['a', ')', ']', '"', '#', '/', ' '], 3):
        for rd, sd in ((1, 0), (0, 1), (-1, 0), (0, -1), (2, -2)):
            out.append((strip_case(s, rd, sd), "strip-small-depth"))
    a2 = ['a', '1', '.', '(', ')', '"', ' ', '[']
    for s in small_strings(a2, 4 if not thorough else 5):
        out.append((sep_case(s), "separate-small"))
    for s in small_strings(['1', '.', ' ', ']', 'a'], 4):
        out.append((sep_case(s), "separate-small"))
    for s in small_strings(['a', '-', ',', '.', '=', ';', ' ', 'é'], 2):
        out.append(("(checklast %s %d)" % (S(s), 1 + len(s) * 12345), "checklast"))
    for n in (0, 1, 2, 99, 100, 101, 102, 150):
        out.append(("(trimerr %s)" % S("a" * n), "trimerr"))
        for p in (0, 1, 50, 99, 100, 101, 120):
            if p < n:
                s = "a" * p + "." + "b" * (n - p - 1)
                out.append(("(trimerr %s)" % S(s), "trimerr"))
    for line in ["", " ", "  a(b.", "a(b. c", " \t", "x" * 120, " . x"]:
        for rd, sd in itertools.product((-1, 0, 1), repeat=2):
            out.append(("(unmatched %s %d %d)" % (S(line), rd, sd), "unmatched"))
    # all files of at most 2 lines over a small line alphabet
    small_lines = ["", " ", "a(1).", "b(2) :-", "c(3),", "d", "# c", "e(4). % c", "f(", "g).", "1.", "5.", '"', "h(5) ;", "x ="]
    for n in range(0, 3):
        for ls in itertools.product(small_lines, repeat=n):
            out.append((readfile("lf", list(ls), []), "file-small"))
    if thorough:
        for ls in itertools.product(small_lines[:9], repeat=3):
            out.append((readfile("lf", list(ls), []), "file-small"))
    # ---- (1b) files with a line that is not valid UTF-8 (implementation only: must be an error)
    for bad in (b"\xe8", b"p\xe8re(2).", b"\xff\xfe", b"a(\xc3).", b"# caf\xe9"):
        for pre in (b"", b"a(1).\n"):
            for post in (b"", b"\n", b"\nc(3).\n"):
                out.append((raw_case(pre + bad + post), "raw-invalid"))
    out.append((raw_case("a(1).\np\u00e8re(2).\n".encode("utf-8")), "raw-valid"))
    # ---- (2) the hand-written programs, every single legal cut, with and without a comment
    for texts in HAND_TEXTS:
        lay = ([([([], "", "", "")], []) for _ in texts], [])
        out.append((readfile("lf", render(lay, texts), texts, layout_sx(lay)), "legal"))
        for ti, t in enumerate(texts):
            for p in cut_points(t, token_boundaries=True):
                st = lex_scan((0, 0, False), t[:p])
                for cm in (["", "# c"] if outside(st) else [""]):
                    rls = [([([], "", "", "")], []) for _ in texts]
                    rls[ti] = ([([], "", " ", cm), ([], "    ", "", "")], [p])
                    lay = (rls, [])
                    out.append((readfile("lf", render(lay, texts), texts, layout_sx(lay)), "legal"))
    # the program of `Example C21_example` (Properties/C21.v, evaluated there by vm_compute): the extracted
    # model and the implementation must give the same texts
    ex_texts = ['p($X) :- $X = 1.5, q("a. b # c"), r(1).', 'q(a, [b, c]).']
    ex_lay = ([([([("", "# facts and rules"), ("  ", "")], "", " ", "% head"),
                 ([], "    ", "", ""),
                 ([("    ", "// a float")], "       ", "", ""),
                 ([], "    ", "\t", "# the rest")], [8, 5, 5]),
               ([([], "", "", ""), ([], "  ", "", "// done")], [4])],
              [("", "% end")])
    out.append((readfile("lf", render(ex_lay, ex_texts), ex_texts, layout_sx(ex_lay)), "legal"))
    # ---- (3) generated programs in random legal layouts
    nprog = 900 if not thorough else 60000
    progs = []
    for _ in range(nprog):
        texts = [gen_rule(rng) for _ in range(rng.randint(1, 5))]
        lay = gen_layout(rng, texts, cut_prob=rng.choice([0.2, 0.5, 0.9]))
        lines = render(lay, texts)
        eol = rng.choice(["lf", "lf", "crlf", "lf-nofinal", "crlf-nofinal"])
        out.append((readfile(eol, lines, texts, layout_sx(lay)), "legal"))
        progs.append((texts, lines))
    # ---- (3b) layouts that cut after any continuation character (also inside `==`, `-3.5`):
    #           legal for the READER (the texts come back up to white space at the cuts), but the
    #           parser need not be insensitive to that white space: model/spec vs. implementation only
    for _ in range(nprog // 3):
        texts = [gen_rule(rng) for _ in range(rng.randint(1, 3))]
        lay = gen_layout(rng, texts, cut_prob=0.5, token_boundaries=False)
        out.append((readfile("lf", render(lay, texts), [], layout_sx_texts(lay, texts)), "legal-any-cut"))
    # ---- (4) mutated files (mostly illegal) and random lines
    for texts, lines in progs[: (600 if not thorough else 30000)]:
        ls = lines
        for _ in range(rng.randint(1, 3)): ls = mutate_lines(rng, ls)
        out.append((readfile(rng.choice(["lf", "crlf"]), ls, []), "mutated"))
    alpha = list('ab15.,;=-()[]"#%/\\ $:') + ["\t", " ", "\r"]
    for _ in range(1500 if not thorough else 80000):
        ls = ["".join(rng.choice(alpha) for _ in range(rng.randint(0, 12))) for _ in range(rng.randint(0, 4))]
        out.append((readfile("lf", ls, []), "random"))
        s = "".join(rng.choice(alpha) for _ in range(rng.randint(0, 16)))
        out.append((sep_case(s), "separate-random"))
        out.append((strip_case(s, rng.choice([0, 0, 0, 1, -1]), rng.choice([0, 0, 1, -2])), "strip-random"))
    return out

def layout_sx_texts(lay, texts):
    # for `legal-any-cut` the texts travel inside the layout slot (the implementation side must not
    # parse them one by one: no `each` relation is claimed there)
    return "(with-texts %s %s)" % (strs(texts), layout_sx(lay))

RULE = ("(1) bounded-exhaustive: strip_comments_at on all lines of length <= 3 over an 11-character syntax alphabet "
        "(also from non-zero depths), separate_rules on all texts of length <= 4 over `a 1 . ( ) \" [ space`, "
        "check_last_char, trim_error_line around 100 characters, unmatched_bracket over all sign combinations, all files "
        "of <= 2 lines over 15 line shapes; (2) eight hand-written programs with every single legal line break, with "
        "and without a comment; (3) generated programs (1-5 rules with float literals, infix = == <= >= < > + - * /, "
        "lists, quoted atoms containing spaces, periods and comment delimiters) in random legal layouts (line breaks "
        "after continuation characters, indentation incl. tab/NBSP/U+3000, blank lines, # % // comments outside "
        "brackets, LF/CRLF, with/without final newline), also with line breaks after ANY continuation character; "
        "(4) 1-3 random mutations of such files and random lines over the syntax alphabet. "
        "Compared: model vs implementation on every case (rule texts or error text); specification (`expected`) "
        "vs both on every legal layout; on the implementation alone, for every legal layout: load_kb_from_file "
        "gives, key by key and rule by rule, the same rules (Display text and structure) as parse_rule on each "
        "given text, or an error. Non-trivial = a legal layout with at least one line break or comment.")

def _parts(res):
    try:
        p = parse(res)
    except Exception:
        return None
    if isinstance(p, list) and p and p[0] == "read":
        return p
    return None

def equivalent(case, i_obs, m_obs):
    """model and implementation are compared on what read_facts_and_rules returns"""
    (iout, ires), (mout, mres) = i_obs, m_obs
    if case.startswith("(readraw"):
        return iout == mout          # not modelled; see relations()
    if iout != mout: return False
    pi, pm = _parts(ires), _parts(mres)
    if pi is None or pm is None:
        return ires == mres
    return pi[1] == pm[1]

def nontrivial(case, tag, result):
    """a legal layout with at least one line break, blank line or comment"""
    k = case.find("(layout ")
    if k < 0: return False
    lay = case[k:]
    return lay.count("(d ") > lay.count("(rl ") or "(b " in lay or any(
        ("%s)" % S(c)) in lay for c in COMMENTS)

def raw_case(data):
    return "(readraw x%s)" % data.hex()

def relations(cases, impl):
    for (case, tag), (out, res) in zip(cases, impl):
        if case.startswith("(readraw"):
            data = bytes.fromhex(case[len("(readraw x"):-1])
            try:
                data.decode("utf-8"); valid = True
            except UnicodeDecodeError:
                valid = False
            if not valid and not res.startswith("(raw (err "):
                yield dict(case=case, tag=tag, why="a file with a line that is not valid UTF-8 was not rejected",
                           implementation=dict(result=res[:1000]), readable=repr(data))
            continue
        if not case.startswith("(readfile"): continue
        p = _parts(res)
        if p is None:
            if res in ("panic", "diverged"):
                yield dict(case=case, tag=tag, why="the reader panicked or did not return", implementation=dict(result=res))
            continue
        read, load, each = p[1], p[2], p[3]
        if read == "panic":
            yield dict(case=case, tag=tag, why="read_facts_and_rules panicked", implementation=dict(result=res[:2000]))
            continue
        if load == "panic":
            # the reader returned (read is ok or err); the panic is parse_rule's, on one of the separated texts
            yield dict(case=case, tag="load-panic", why="load_kb_from_file panicked in parse_rule (the reader had returned)",
                       implementation=dict(result=res[:2000]))
            continue
        if not _claims_each(case): continue
        # load = each, or an error
        if isinstance(load, list) and load[0] == "ok":
            if not (isinstance(each, list) and each[0] == "ok" and each[1] == load[1]):
                yield dict(case=case, tag=tag,
                           why="the file was loaded without an error, but not as the rules that parse_rule gives for its rule texts",
                           implementation=dict(loaded=_kb_text(load), one_by_one=_kb_text(each)),
                           readable=describe(case))

def _claims_each(case):
    """the case carries its rule texts and a layout for them (not the `with-texts` form)"""
    k = case.find(" (layout ")
    return k > 0 and "(with-texts" not in case

def _texts_of(case):
    try:
        p = parse(case)
        return [unS(x) for x in p[3]]
    except Exception:
        return []

def known_class(case, tag):
    """texts in which the reader's plain counting of ( ) [ ] and quotes differs from the parser's reading:
    a backslash escape, or a bracket written between double quotes"""
    if not case.startswith("(readfile"): return None
    if tag == "load-panic": return "parse-rule-panic"
    for t in _texts_of(case):
        if "\\" in t: return "escaped-or-quoted-bracket"
        q = False
        for c in t:
            if c == '"': q = not q
            elif q and c in "()[]": return "escaped-or-quoted-bracket"
    return None

def _kb_text(x):
    if not isinstance(x, list): return str(x)
    if x[0] != "ok": return "error " + (str(x[1]) if len(x) > 1 and not isinstance(x[1], list) else "")
    rows = []
    for entry in x[1]:
        for r in entry[1:]:
            rows.append(unS(r[0]))
    return rows

def describe(case):
    try:
        p = parse(case)
        if p[0] == "readfile":
            return dict(file="\n".join(unS(x) for x in p[2]), rule_texts=[unS(x) for x in p[3]], eol=p[1])
        if p[0] in ("strip", "separate", "checklast", "trimerr", "unmatched"):
            return dict(op=p[0], text=unS(p[1]), args=p[2:])
    except Exception:
        pass
    return case[:300]
