"""C08: variable bindings never form a cycle.
Cases: (useqr (ss) q($X,$Y,$Z) pairs...) - a sequence of unifications followed by resolving all
three variables (which recurses for ever on a cycle)."""
import itertools
from lib.sx import *
from lib import obs
from gen.universe import X, Y, Z

T6 = [X, Y, Z, atom("a"), atom("b"), integer(1)]
PAIRS = list(itertools.product(T6, T6))
Q = cplx("q", X, Y, Z)

def mk(seq):
    return "(useqr (ss) %s %s)" % (Q, " ".join("(%s %s)" % p for p in seq))

def cases(tier, rng):
    out = []
    seqs = [()]
    for p in PAIRS: seqs.append((p,))
    for p, q in itertools.product(PAIRS, PAIRS): seqs.append((p, q))
    n3 = 6000 if tier == "quick" else 46656
    if n3 >= 46656:
        for s in itertools.product(PAIRS, repeat=3): seqs.append(s)
    else:
        for _ in range(n3): seqs.append(tuple(rng.choice(PAIRS) for _ in range(3)))
    n4 = 3000 if tier == "quick" else 150000
    var_pairs = [(a, b) for a, b in PAIRS if a in (X, Y, Z) and b in (X, Y, Z)]
    for _ in range(n4):
        k = rng.choice([4, 4, 5, 6])
        # biased to variable-variable steps, which are the ones that can close a cycle
        seqs.append(tuple(rng.choice(var_pairs) if rng.random() < 0.7 else rng.choice(PAIRS) for _ in range(k)))
    # steps between compound patterns that alias two variables without ever binding a variable to a compound term
    # (so still no occurs check): [a | $U] = [a | $V], [$U] = [$V], f($U) = f($V), g($U, a) = g($V, a), ...
    def patterns(U, V):
        a, b = atom("a"), atom("b")
        return [(lst([a], U), lst([a], V)), (lst([U]), lst([V])), (cplx("f", U), cplx("f", V)), (lst([a, b], U), lst([a, b], V)),
                (cplx("g", U, a), cplx("g", V, a)), (lst([U, a]), lst([V, a])), (lst([cplx("f", U)]), lst([cplx("f", V)]))]
    VS = [X, Y, Z]
    comp = [p for U in VS for V in VS if U != V for p in patterns(U, V)]
    for c1 in comp:
        for vp in var_pairs:
            seqs.append((c1, vp)); seqs.append((vp, c1))
    nc = 2500 if tier == "quick" else 60000
    for _ in range(nc):
        k = rng.choice([2, 3, 3, 4])
        steps = [rng.choice(var_pairs) if rng.random() < 0.75 else rng.choice(PAIRS) for _ in range(k)]
        for _ in range(rng.choice([1, 1, 2])):
            steps.insert(rng.randrange(len(steps) + 1), rng.choice(comp))
        seqs.append(tuple(steps))
    # beyond the small shapes: 8-20 variable-variable steps among 6-14 variables whose ids collide modulo 64 / 256 / 65536
    for ids in ([3, 5, 67, 69, 131, 133], [2, 258, 514, 66, 130, 6, 322, 70], [1, 2, 3, 65, 66, 67, 129, 130, 131, 257, 258, 259, 65537, 65539], list(range(1, 15))):
        vs = [var(i, "$V%d" % i) if i > 3 else [X, Y, Z][i - 1] for i in ids]
        for _ in range(25 if tier == "quick" else 600):
            k = rng.choice([8, 10, 12, 16, 20])
            steps = [(rng.choice(vs), rng.choice(vs)) if rng.random() < 0.85 else (rng.choice(vs), rng.choice([atom("a"), atom("b"), integer(1)])) for _ in range(k)]
            seqs.append(tuple(steps))
    seen = set()
    for s in seqs:
        if s in seen: continue
        seen.add(s)
        out.append((mk(s), "seq%d" % min(len(s), 4)))
        # every prefix is a case too (needed by the aliased-noop relation)
        for k in range(len(s)):
            if s[:k] not in seen:
                seen.add(s[:k]); out.append((mk(s[:k]), "seq%d" % min(k, 4)))
    out += resolve_cases(tier, rng)
    out += solver_cases(tier, rng)
    return out

# ---- through the solver: facts whose heads hold FRESH variables inside a compound term or a list, called with variables that
#      are already aliased through other clause heads (eq($P, $P)); every answer is resolved (formatting it walks the bindings) ----
def solver_cases(tier, rng):
    from gen import progs
    facts = {"mk": "mk(box($A)).", "cell": "cell([$A]).", "pr": "pr(f($A, $B)).", "opn": "opn([$A | $B]).", "two": "two(g($A, $A)).",
             "gr": "gr(box(a))."}
    eqs = ["eq($P, $P).", "eq($P, $Q) :- $P = $Q."]
    out = []
    for f, ftxt in facts.items():
        bodies2 = ["%s($Y), eq($W, $Y)" % f, "eq($W, $Y), %s($Y)" % f, "%s($Y), eq($Y, $W)" % f, "%s($Y), %s($W), eq($Y, $W)" % (f, f),
                   "%s($Y), $W = $Y" % f, "eq($W, $Y), %s($W)" % f]
        bodies3 = ["%s($Y), eq($W, $Y), eq($V, $W)" % f, "eq($V, $W), %s($Y), eq($W, $Y)" % f, "eq($W, $Y), eq($V, $W), %s($V)" % f,
                   "%s($Y), %s($V), eq($W, $Y), eq($V, $W)" % (f, f)]
        for e in eqs:
            for b in bodies2:
                for q in ("t($X, $Y)", "t($X, $X)", "t($Y, $X)"):
                    out.append((["%s" % ftxt, e, "t($Y, $W) :- %s." % b], q))
            for b in bodies3:
                for q in ("u($X, $Y, $Z)", "u($X, $X, $Y)", "u($Z, $Y, $X)"):
                    out.append((["%s" % ftxt, e, "u($Y, $W, $V) :- %s." % b], q))
    # clauses whose variables have long names that agree in their first 16 / 24 or last 8 characters (a renaming map keyed by
    # too little of the name merges them; unifications that need no occurs check then bind a variable into a term containing it)
    for a, b in (("$FirstElement", "$LastElement"), ("$LeftNeighbour", "$RightNeighbour"), ("$TemperatureReadingCelsius", "$TemperatureReadingKelvin"),
                 ("$PartialResultOfRecursiveCallLeft", "$PartialResultOfRecursiveCallRight"), ("$A", "$B")):
        out.append((["pair(%s, box(%s))." % (a, b)], "pair($A, $A)"))
        out.append((["follows(%s, %s) :- %s = next(%s)." % (a, b, b, a)], "follows($X, $Y)"))
        out.append((["eq($P, $P).", "w(%s, %s) :- eq(%s, [%s])." % (a, b, a, b)], "w($X, $Y)"))
    res = []
    for rules, q in out:
        res.append(("(hist (kb-text %s) %s (ask 0) (ask 0))" % (" ".join(S(r) for r in rules), progs.build_text(0, q)), "solver"))
    return res

# ---- the resolution helpers of substitution_set.rs (is_bound, get_binding, is_ground_variable, get_ground_term,
#      get_complex, get_list, get_constant) on ACYCLIC substitution sets: slot i is bound to a term whose variables
#      all have ids above i, so every chain ends ----
RFUNS = ["is-bound", "get-binding", "is-ground-variable", "get-ground-term", "get-complex", "get-list", "get-constant"]
def _rvar(i): return var(i, "$V%d" % i)
def _rterm(rng, lo, depth=0):
    """a term whose variables have ids in lo..7 (7 lies beyond every set generated here)"""
    k = rng.random()
    vs = list(range(lo, 8))
    if k < 0.35 and vs: return _rvar(rng.choice(vs))
    if k < 0.55 or depth >= 2: return rng.choice([atom("a"), atom("b"), integer(1), flt(2.5), ANON])
    if k < 0.75: return cplx("f", *[_rterm(rng, lo, depth + 1) for _ in range(rng.randint(1, 2))])
    if k < 0.9: return lst([_rterm(rng, lo, depth + 1) for _ in range(rng.randint(0, 2))])
    return lst([_rterm(rng, lo, depth + 1)], _rvar(rng.choice(vs)) if vs else ANON)
def resolve_cases(tier, rng):
    out = []
    n = 400 if tier == "quick" else 6000
    sets = [[], [None], [None, atom("a")], [None, _rvar(2), _rvar(3), atom("a")], [None, _rvar(2), _rvar(3), None],
            [None, _rvar(3), cplx("f", _rvar(3)), lst([atom("a")], _rvar(4)), None], [None, _rvar(7), None]]
    for _ in range(n):
        ln = rng.randint(1, 6)
        sets.append([None if (i == 0 or rng.random() < 0.3) else _rterm(rng, i + 1) for i in range(ln)])
    probes = [_rvar(i) for i in range(0, 8)] + [atom("a"), integer(1), flt(2.5), ANON, cplx("f", _rvar(1)), lst([_rvar(1)]), EMPTY, NIL]
    for st in sets:
        for f in RFUNS:
            for t in (probes if len(out) < 3000 or tier != "quick" else rng.sample(probes, 5)):
                out.append(("(resolve %s %s %s)" % (f, t, ss(st)), "resolve"))
    return out

def _rfollow(t, st, steps=0):
    """python reference: follow bindings from t; -> the term where the chain ends, or None at an unbound variable"""
    while obs.is_var(t):
        i = int(t[1])
        if i >= len(st) or st[i] == "-": return None
        t = st[i]
        steps += 1
        if steps > 100: raise RuntimeError("cycle in a generated set")
    return t
def _rexpect(f, t, st):
    isv = obs.is_var(t)
    if f in ("is-bound", "get-binding", "is-ground-variable") and not isv: return "panic"
    def some(x): return ["ok", "none"] if x is None else ["ok", ["some", x]]
    if f == "is-bound": i = int(t[1]); return ["ok", "1" if i < len(st) and st[i] != "-" else "0"]
    if f == "get-binding": i = int(t[1]); return some(st[i] if i < len(st) and st[i] != "-" else None)
    g = _rfollow(t, st)
    if f == "is-ground-variable": return ["ok", "1" if g is not None else "0"]
    if f == "get-ground-term": return some(g)
    kind = {"get-complex": "c", "get-list": "l", "get-constant": "aif"}[f]
    if not isv: return some(t if isinstance(t, list) and t[0] in kind else None)
    return some(g if g is not None and isinstance(g, list) and g[0] in kind else None)

RULE = ("all sequences of length <= 2 (quick: plus 6000 random of length 3 and 3000 of length 4-6 biased to "
        "variable-variable steps; thorough: all 46656 of length 3 plus 150000 longer) of unifications among $X,$Y,$Z, a, b, 1 "
        "- no occurs check is ever needed -, and sequences that mix these with steps between compound patterns aliasing two variables "
        "([a | $U] = [a | $V], [$U] = [$V], f($U) = f($V), g($U, a) = g($V, a), ... - in correct code these bind variable to variable only), "
        "and sequences of 8-20 steps among up to 14 variables whose ids collide modulo 64 / 256 / 65536, "
        "each followed by resolving q($X,$Y,$Z). "
        "Relations checked on the implementation's own results: no result diverges or panics; no cycle in the "
        "returned bindings; a last step between two already-aliased variables returns the previous set unchanged. "
        "Also the seven resolution helpers of substitution_set.rs (is_bound, get_binding, is_ground_variable, get_ground_term, get_complex, "
        "get_list, get_constant) on generated ACYCLIC substitution sets (slot i bound to a term over variables above i) and probe terms "
        "(variables inside, at the end of and beyond the set, constants, compound terms): model-vs-implementation plus a python walker as oracle. "
        "Through the solver: text programs whose facts hold fresh variables inside a compound term or a list (mk(box($A)). cell([$A]). ...), called from "
        "rules that alias their variables through other clause heads (eq($P, $P)) in every order, the answer formatted (which resolves every variable); "
        "none may diverge or panic. "
        "Non-trivial = at least two variable-variable steps succeeded / the helper found a binding / the answer shows the fact's compound term.")

def nontrivial(case, tag, result):
    if tag == "resolve": return "(ok (some" in result or "(ok 1)" in result
    if tag == "solver": return "(ans (ss" in result
    if not case.startswith("(useqr "): return False
    c = parse(case)
    vv = sum(1 for p in c[3:] if obs.is_var(p[0]) and obs.is_var(p[1]) and p[0] != p[1])
    return vv >= 2 and "some" in result

REL_STATS = {}
def relations(cases, impl):
    by_case = {}
    for (case, tag), (out, res) in zip(cases, impl):
        by_case[case] = res
    REL_STATS.clear(); REL_STATS.update(resolve_oracle_checks=0)
    for (case, tag), (out, res) in zip(cases, impl):
        if tag == "resolve":
            c = parse(case)
            exp = _rexpect(c[1], c[2], c[3][1:])
            REL_STATS["resolve_oracle_checks"] += 1
            got = res if res in ("panic", "diverged") else parse(res)
            if got != exp:
                yield dict(case=case, tag=tag, why="%s: the result differs from following the chain of bindings by hand" % c[1],
                           implementation=dict(result=res), expected=obs.to_text(exp) if isinstance(exp, list) else exp)
            continue
        if tag == "solver":
            REL_STATS["solver_histories"] = REL_STATS.get("solver_histories", 0) + 1
            why = None
            if "diverged" in res or "panic" in res or "fuel" in res:
                why = "solving (no step needs an occurs check) or formatting the answer did not finish: a cycle of bindings"
            else:
                try:
                    for o in parse(res)[1:]:
                        if isinstance(o, list) and o[0] == "ans" and isinstance(o[1], list) and o[1][0] == "ss":
                            if obs.has_cycle([None if e == "-" else e for e in o[1][1:]]):
                                why = "the answer's substitution set contains a cycle of bindings (through a compound term)"
                except Exception:
                    why = "unreadable result"
            if why: yield dict(case=case, tag=tag, why=why, implementation=dict(result=res))
            continue
        if not case.startswith("(useqr "): continue
        r = obs.parse_result(res)
        if r[0] in ("panic", "diverged"):
            yield dict(case=case, tag=tag, why="a sequence that needs no occurs check ended in %s (resolving a cyclic binding never terminates)" % r[0],
                       implementation=dict(result=res))
            continue
        if r[0] != "some": continue
        if obs.has_var_cycle(r[1]):
            yield dict(case=case, tag=tag, why="the returned bindings contain a cycle", implementation=dict(result=res))
            continue
        c = parse(case)
        pairs = c[3:]
        if not pairs: continue
        a, b = pairs[-1]
        if obs.is_var(a) and obs.is_var(b):
            prefix = "(useqr (ss) %s %s)" % (Q, " ".join(obs.to_text(p) for p in pairs[:-1]))
            pres = by_case.get(prefix)
            if pres is None: continue
            pr = obs.parse_result(pres)
            if pr[0] != "some": continue
            da, _ = obs.deref(pr[1], a); db, _ = obs.deref(pr[1], b)
            if obs.is_var(da) and obs.is_var(db) and da[1] == db[1] and r[1] != pr[1]:
                yield dict(case=case, tag=tag, cases=[prefix, case],
                           why="the last step unifies two variables that are already aliased, yet the bindings changed",
                           implementation=dict(before=pres, after=res))
