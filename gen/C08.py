"""C08: variable bindings never form a cycle.
Cases: (useqr (ss) q($X,$Y,$Z) pairs...) - a sequence of unifications followed by resolving all
three variables (which recurses for ever on a cycle)."""
import itertools
from lib.sx import *
from lib import obs
from gen.universe import X, Y, Z

T6 = [X, Y, Z, atom("a"), atom("b"), integer(1)]
PAIRS = list(itertools.product(T6, T6))
Q = cplx("q", X, Y, Z)

def mk(seq):
    return "(useqr (ss) %s %s)" % (Q, " ".join("(%s %s)" % p for p in seq))

def cases(tier, rng):
    out = []
    seqs = [()]
    for p in PAIRS: seqs.append((p,))
    for p, q in itertools.product(PAIRS, PAIRS): seqs.append((p, q))
    n3 = 6000 if tier == "quick" else 46656
    if n3 >= 46656:
        for s in itertools.product(PAIRS, repeat=3): seqs.append(s)
    else:
        for _ in range(n3): seqs.append(tuple(rng.choice(PAIRS) for _ in range(3)))
    n4 = 3000 if tier == "quick" else 150000
    var_pairs = [(a, b) for a, b in PAIRS if a in (X, Y, Z) and b in (X, Y, Z)]
    for _ in range(n4):
        k = rng.choice([4, 4, 5, 6])
        # biased to variable-variable steps, which are the ones that can close a cycle
        seqs.append(tuple(rng.choice(var_pairs) if rng.random() < 0.7 else rng.choice(PAIRS) for _ in range(k)))
    # steps between compound patterns that alias two variables without ever binding a variable to a compound term
    # (so still no occurs check): [a | $U] = [a | $V], [$U] = [$V], f($U) = f($V), g($U, a) = g($V, a), ...
    def patterns(U, V):
        a, b = atom("a"), atom("b")
        return [(lst([a], U), lst([a], V)), (lst([U]), lst([V])), (cplx("f", U), cplx("f", V)), (lst([a, b], U), lst([a, b], V)),
                (cplx("g", U, a), cplx("g", V, a)), (lst([U, a]), lst([V, a])), (lst([cplx("f", U)]), lst([cplx("f", V)]))]
    VS = [X, Y, Z]
    comp = [p for U in VS for V in VS if U != V for p in patterns(U, V)]
    for c1 in comp:
        for vp in var_pairs:
            seqs.append((c1, vp)); seqs.append((vp, c1))
    nc = 2500 if tier == "quick" else 60000
    for _ in range(nc):
        k = rng.choice([2, 3, 3, 4])
        steps = [rng.choice(var_pairs) if rng.random() < 0.75 else rng.choice(PAIRS) for _ in range(k)]
        for _ in range(rng.choice([1, 1, 2])):
            steps.insert(rng.randrange(len(steps) + 1), rng.choice(comp))
        seqs.append(tuple(steps))
    seen = set()
    for s in seqs:
        if s in seen: continue
        seen.add(s)
        out.append((mk(s), "seq%d" % min(len(s), 4)))
        # every prefix is a case too (needed by the aliased-noop relation)
        for k in range(len(s)):
            if s[:k] not in seen:
                seen.add(s[:k]); out.append((mk(s[:k]), "seq%d" % min(k, 4)))
    return out

RULE = ("all sequences of length <= 2 (quick: plus 6000 random of length 3 and 3000 of length 4-6 biased to "
        "variable-variable steps; thorough: all 46656 of length 3 plus 150000 longer) of unifications among $X,$Y,$Z, a, b, 1 "
        "- no occurs check is ever needed -, and sequences that mix these with steps between compound patterns aliasing two variables "
        "([a | $U] = [a | $V], [$U] = [$V], f($U) = f($V), g($U, a) = g($V, a), ... - in correct code these bind variable to variable only), "
        "each followed by resolving q($X,$Y,$Z). "
        "Relations checked on the implementation's own results: no result diverges or panics; no cycle in the "
        "returned bindings; a last step between two already-aliased variables returns the previous set unchanged. "
        "Non-trivial = at least two variable-variable steps succeeded.")

def nontrivial(case, tag, result):
    c = parse(case)
    vv = sum(1 for p in c[3:] if obs.is_var(p[0]) and obs.is_var(p[1]) and p[0] != p[1])
    return vv >= 2 and "some" in result

def relations(cases, impl):
    by_case = {}
    for (case, tag), (out, res) in zip(cases, impl):
        by_case[case] = res
    for (case, tag), (out, res) in zip(cases, impl):
        r = obs.parse_result(res)
        if r[0] in ("panic", "diverged"):
            yield dict(case=case, tag=tag, why="a sequence that needs no occurs check ended in %s (resolving a cyclic binding never terminates)" % r[0],
                       implementation=dict(result=res))
            continue
        if r[0] != "some": continue
        if obs.has_var_cycle(r[1]):
            yield dict(case=case, tag=tag, why="the returned bindings contain a cycle", implementation=dict(result=res))
            continue
        c = parse(case)
        pairs = c[3:]
        if not pairs: continue
        a, b = pairs[-1]
        if obs.is_var(a) and obs.is_var(b):
            prefix = "(useqr (ss) %s %s)" % (Q, " ".join(obs.to_text(p) for p in pairs[:-1]))
            pres = by_case.get(prefix)
            if pres is None: continue
            pr = obs.parse_result(pres)
            if pr[0] != "some": continue
            da, _ = obs.deref(pr[1], a); db, _ = obs.deref(pr[1], b)
            if obs.is_var(da) and obs.is_var(db) and da[1] == db[1] and r[1] != pr[1]:
                yield dict(case=case, tag=tag, cases=[prefix, case],
                           why="the last step unifies two variables that are already aliased, yet the bindings changed",
                           implementation=dict(before=pres, after=res))
