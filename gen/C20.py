"""C20: a term's meaning does not depend on where it is written."""
import collections
from gen import parse_common as pc
from lib import sx
from lib.sx import S, unS

META = {"assumptions": [
    "the side conditions of the theorems (args_plain, list_plain, parens_balanced, no_arith_infix) are re-implemented "
    "in gen/C20.py to decide on which generated texts each relation is claimed; relation counts are in relation_stats",
    "several arguments / list elements: only positions 1..3 of up to three are exercised, the theorems are for a single "
    "argument / element",
]}

WS = {chr(c) for c in list(range(9, 14)) + [0x20, 0x85, 0xA0, 0x1680, 0x2028, 0x2029, 0x202F, 0x205F, 0x3000] + list(range(0x2000, 0x200B))}

def trim(s):
    i, j = 0, len(s)
    while i < j and s[i] in WS: i += 1
    while j > i and s[j - 1] in WS: j -= 1
    return s[i:j]

def pa_scan(t):
    oq, nq, rd, sd = False, 0, 0, 0
    for ch in t:
        if oq:
            if ch == '"': oq, nq = False, nq + 1
        elif ch == '[': sd += 1
        elif ch == ']': sd -= 1
        elif ch == '(': rd += 1
        elif ch == ')': rd -= 1
        elif rd == 0 and sd == 0:
            if ch == ',' or ch == '\\': return None
            if ch == '"': oq, nq = True, nq + 1
    return oq, nq, rd, sd

def quotes_ok(t, nq):
    return nq == 0 or (nq == 2 and t[:1] == '"' and t[-1:] == '"')

def args_plain(s):
    t = trim(s)
    if t[-1:] == ',': return False
    r = pa_scan(t)
    return r is not None and r[2] == 0 and r[3] == 0 and quotes_ok(t, r[1])

def arith_infix(t):
    """port of check_arithmetic_infix: index of the infix or None"""
    n = len(t); prev = '#'; i = 0
    while i < n:
        c1 = t[i]; c2 = t[i + 1] if i + 1 < n else '#'
        if c1 == '"':
            j = t.find('"', i + 1)
            if j >= 0: i = j
        elif c1 == '(':
            j = t.find(')', i + 1)
            if j >= 0: i = j
        else:
            if prev != ' ':
                prev = c1; i += 1; continue
            if c1 in "+-*/" and c2 == ' ': return i
        prev = c1; i += 1
    return None

def no_arith_infix(s):
    return arith_infix(trim(s)) is None

def ee(v, i, ch):
    return v[i] == ch and not (i > 0 and v[i - 1] == '\\')

def list_scan(s):
    oq, nq, rd, sd = False, 0, 0, 0
    for i in range(len(s) - 1, -1, -1):
        if oq:
            if ee(s, i, '"'): oq, nq = False, nq + 1
        elif ee(s, i, ']'): sd += 1
        elif ee(s, i, '['): sd -= 1
        elif ee(s, i, ')'): rd += 1
        elif ee(s, i, '('): rd -= 1
        elif rd == 0 and sd == 0:
            if ee(s, i, '"'): oq, nq = True, nq + 1
            elif ee(s, i, ',') or ee(s, i, '|'): return None
    return oq, nq, rd, sd

def list_plain(s):
    if s == "": return False
    r = list_scan(s)
    return r is not None and quotes_ok(trim(s), r[1])

def list_plain_multi(s):
    """next to other elements (no theorem): the scan must also leave the element balanced, and the text must not end with
    a backslash (it would escape the separator that follows)"""
    if not list_plain(s) or s.endswith("\\"): return False
    oq, nq, rd, sd = list_scan(s)
    return not oq and rd == 0 and sd == 0

def parens_balanced(s):
    return s.count('(') == s.count(')')

INFIX_OPS = [("=", "unify"), ("==", "equal"), ("<", "less_than"), ("<=", "less_than_or_equal"),
             (">", "greater_than"), (">=", "greater_than_or_equal")]
INFIX_NAME = {"=": "unify", "==": "equal", "<": "lt", "<=": "le", ">": "gt", ">=": "ge"}

TEXT_OF = {}      # case -> (s, context)

def contexts(s, rng, full):
    """[(case, tag)] placing text s in every context"""
    out = []
    def add(op, text, ctx):
        c = pc.case(op, text)
        TEXT_OF[c] = (s, ctx)
        out.append((c, ctx))
    add("parse-term", s, "alone")
    add("parse-args", s, "arg")
    add("parse-list", "[" + s + "]", "list")
    add("parse-complex", "f(" + s + ")", "complex")
    add("parse-query", "f(" + s + ")", "query")
    add("parse-subgoal", "$X = " + s, "infix-right:=")
    add("check-infix", "$X = " + s, "scan-right:=")
    add("parse-subgoal", s + " = $X", "infix-left:=")
    add("check-infix", s + " = $X", "scan-left:=")
    if full:
        add("parse-query", "f(" + s + ").", "query.")
        add("parse-function", "add(" + s + ")", "function")
        add("parse-subgoal", "print(" + s + ")", "builtin")
        add("check-infix", "print(" + s + ")", "scan-builtin")
        add("parse-args", "a, " + s, "arg2of2")
        add("parse-args", s + ", a", "arg1of2")
        add("parse-args", "a, " + s + ", b", "arg2of3")
        add("parse-list", "[a, " + s + "]", "list2of2")
        add("parse-list", "[" + s + ", a]", "list1of2")
        add("parse-list", "[" + s + " | $T]", "list1tail")
        add("parse-complex", "f(a, " + s + ")", "complex2of2")
        op, _ = rng.choice(INFIX_OPS[1:])
        add("parse-subgoal", "$X " + op + " " + s, "infix-right:" + op)
        add("check-infix", "$X " + op + " " + s, "scan-right:" + op)
    return out

SIGNED = ["-5", "+5", "-0", "+0", "-5.5", "+3.8", "-.5", "-5.", "1-2", "5-", "-", "+", "--5", "+-5", "- 5", "1 2", "1.2.3",
          "-a", "a-", "-$X", "5 - 3", "5 -3", "5- 3", "-5 - -3", "-9223372036854775808", "-9223372036854775809",
          "+9223372036854775807", "1e5", "-1e5", "0x10", "1_000", ".", "..", "-.", "+.", "- .5"]
PUNCT = ["\\,", "\\|", "\\(", "\\)", "\\[", "\\]", "\\\\", "\\\"", "\\5", "\\a", "\\ ", ";", "%", "*", "/", "<", ">", "=", "==", "!",
         "_", "$", "$_", "|", "\\$X", "\"", "\"\"", "\"a\"", "\"a, b\"", "\"-5\"", "\"[\"", "a\"b\"", "\"a\"b", "\"a\"\"b\""]

def cases(tier, rng):
    TEXT_OF.clear()
    out = []
    seen = set()
    def put(s, tag, full):
        if s in seen: return
        seen.add(s)
        for c, ctx in contexts(s, rng, full):
            out.append((c, tag + "/" + ctx))
    for s in SIGNED: put(s, "signed", True)
    for s in PUNCT: put(s, "punct", True)
    nex = 3 if tier == "quick" else 4
    for s in pc.exhaustive(nex):
        put(s, "exhaustive<=%d" % nex, len(s) <= 2)
    n = 2500 if tier == "quick" else 30000
    for _ in range(n):
        t = pc.gen_term(rng, rng.randint(0, 3))
        put(t, "grammar", True)
        if rng.random() < 0.5: put(pc.mutate(rng, t, 1), "mutated", True)
        if rng.random() < 0.3: put(" " + t + "  ", "padded", True)
    for s in pc.FLOAT_EDGE: put(s, "float-edge", False)
    for s in pc.EXPONENT_LIKE: put(s, "exponent-like", True)
    for s in ("\u0428\u0443\u0440\u0430", "\u0422\u0443\u043b\u0430", "\u65e5\u672c", "\u0429\u0438", "\u015ba", "\u042c\u0445", "a\u672cb", "\u0428", "\u672c"): put(s, "low-byte-punctuation", True)
    # beyond the small texts: deep terms (depth 4-6), long lists and argument lists, long and non-ASCII atoms, texts that bring a
    # context close to (and over) the 1000-character limit of complex terms
    for _ in range(120 if tier == "quick" else 3000):
        put(pc.gen_term(rng, rng.randint(4, 6)), "grammar-deep", True)
    for n_el in (9, 17, 40):
        put("[" + ", ".join(pc.gen_term(rng, 1) for _ in range(n_el)) + "]", "long-list", True)
        put("g(" + ", ".join(pc.gen_term(rng, 1) for _ in range(n_el)) + ")", "long-complex", True)
    for s in ("an_atom_of_more_than_thirty_two_characters_in_all", "Zo\u00eb", "\u65e5\u672c\u8a9e", "\u03b1\u03b2\u03b3(\u00e9, \u65e5)", "[\u00e9, \u00e8 | $T]", "a" * 300, "\u00e9" * 300,
              "a" * 985, "a" * 990, "a" * 993, "a" * 994, "a" * 995, "a" * 996, "a" * 997, "\u00e9" * 497, "\u00e9" * 994, "\u00e9" * 996):
        put(s, "long", True)
    return out

RULE = ("Every text s (signed numbers and d-d forms, punctuation atoms and escapes, all strings of length <= 3 (quick) / 4 "
        "(thorough) over the syntax alphabet, grammar-based terms of depth <= 3 with nested lists / complex terms / functions / "
        "infix arithmetic, one-edit mutations, padded with blanks; also terms of depth 4-6, lists and argument lists of 9-40 elements, long and non-ASCII atoms, texts that bring f(s) to 990-1003 characters) is placed alone (parse_term), as the argument of "
        "parse_arguments, in [s], f(s), the query f(s) and f(s)., add(s), print(s), as either operand of `=` and of one other "
        "comparison operator, and as 1st/2nd of two and 2nd of three arguments / list elements. Correspondence: every case "
        "model vs implementation. Relations on the implementation's own results, for texts satisfying the theorem's side "
        "conditions (recomputed in python): the term in each context equals parse_term's term (queries: up to the variable "
        "ids given by make_query), or both fail. Non-trivial = a text of at least two characters containing a sign, digit, "
        "period, bracket, quote, escape or `$`, placed in a context (not alone) and accepted there.")

REL_STATS = collections.Counter()
_NONTRIV = set()

def nontrivial(case, tag, result):
    s, ctx = TEXT_OF.get(case, (None, None))
    if s is None or ctx == "alone" or ctx.startswith("scan-") or not result.startswith("(ok"): return False
    return len(s) >= 2 and any(c in s for c in '-+.[("\\0123456789$')

def zero_ids(p):
    if isinstance(p, list):
        if len(p) == 3 and p[0] == "v": return ["v", "0", p[2]]
        return [zero_ids(x) for x in p]
    return p

def known_class(case, tag):
    s, ctx = TEXT_OF.get(case, (None, None))
    if s is None: return None
    if not no_arith_infix(s) and (ctx.startswith("arg") or ctx.startswith("complex") or ctx.startswith("query")
                                   or ctx in ("function", "builtin")):
        return "arith-infix-as-argument"
    return None

EMPTY = ["l", "nil", "nil", "0", "0"]

def expected(ctx, t, s):
    """what the context must return when parse_term(s) = (ok t); None = no claim"""
    a = lambda x: ["a", S(x)]
    X = ["v", "0", S("$X")]
    if ctx == "arg": return ("whole", [t])
    if ctx == "list": return ("whole", ["l", t, EMPTY, "1", "0"])
    if ctx == "complex": return ("whole", ["c", a("f"), t])
    if ctx in ("query", "query."): return ("query", ["call", ["c", a("f"), t]])
    if ctx == "function": return ("whole", ["fn", S("add"), t])
    if ctx == "builtin": return ("whole", ["bip", S("print"), t])
    if ctx.startswith("infix-right:"):
        return ("whole", ["bip", S(dict(INFIX_OPS)[ctx.split(":", 1)[1]]), X, t])
    if ctx.startswith("infix-left:"):
        return ("whole", ["bip", S(dict(INFIX_OPS)[ctx.split(":", 1)[1]]), t, X])
    if ctx == "arg2of2": return ("whole", [a("a"), t])
    if ctx == "arg1of2": return ("whole", [t, a("a")])
    if ctx == "arg2of3": return ("whole", [a("a"), t, a("b")])
    if ctx == "complex2of2": return ("whole", ["c", a("f"), a("a"), t])
    if ctx == "list2of2": return ("whole", ["l", a("a"), ["l", t, EMPTY, "1", "0"], "2", "0"])
    if ctx == "list1of2": return ("whole", ["l", t, ["l", a("a"), EMPTY, "1", "0"], "2", "0"])
    if ctx == "list1tail": return ("whole", ["l", t, ["l", ["v", "0", S("$T")], EMPTY, "1", "1"], "2", "0"])
    return None

def claimed(ctx, s, scan_res):
    """do the theorem's side conditions hold for text s in this context?"""
    if trim(s) == "": return False
    base = ctx.split(":")[0]
    # the theorems' hypothesis on length: a complex term (f(..), add(..), print(..)) of more than 1000 characters is an error
    extra = {"complex": 3, "query": 3, "query.": 4, "complex2of2": 6, "function": 5, "builtin": 7}.get(base)
    if extra is not None and len(s) + extra > 1000: return False
    if len(s) > 1000 - 3 and ("(" in s): return False
    if base in ("arg", "arg2of2", "arg1of2", "arg2of3", "function", "builtin"):
        return args_plain(s) and (base == "arg" or parens_balanced(s))
    if base in ("complex", "query", "query.", "complex2of2"):
        return args_plain(s) and parens_balanced(s)
    if base == "list":
        return list_plain(s)
    if base in ("list2of2", "list1of2", "list1tail"):
        return list_plain_multi(s)
    if base in ("infix-right", "infix-left"):
        # the scan of check_infix (the implementation's own) finds the operator where it is written
        return scan_res is not None and scan_res[0] and not (trim(s) != s)
    return False

def relations(cases, impl):
    REL_STATS.clear(); _NONTRIV.clear()
    res_of = {}
    for (case, tag), (out, res) in zip(cases, impl):
        res_of[case] = res
    for (case, tag), (out, res) in zip(cases, impl):
        s, ctx = TEXT_OF.get(case, (None, None))
        if s is None or ctx == "alone" or ctx.startswith("scan-"): continue
        alone = res_of.get(pc.case("parse-term", s))
        if alone is None or alone in ("panic", "diverged") or res in ("panic", "diverged"): continue
        scan = None
        if ctx.startswith("infix-"):
            side, op = ctx.split(":", 1)
            text = ("$X " + op + " " + s) if side == "infix-right" else (s + " " + op + " $X")
            sr = res_of.get(pc.case("check-infix", text))
            want_idx = 3 if side == "infix-right" else len(s) + 1
            ok = False
            if sr and sr.startswith("(ok"):
                p = sx.parse(sr)
                ok = p[1][0] == INFIX_NAME[op] and int(p[1][1]) == want_idx
            scan = (ok,)
        if ctx == "builtin":
            # parse_subgoal looks for a comparison infix in the whole goal text first, and its scan skips a
            # parenthesis only up to the first `)`: no claim when that scan finds something inside print(...)
            sr = res_of.get(pc.case("check-infix", "print(" + s + ")"))
            if sr != "(ok (none 0))":
                REL_STATS["unclaimed:builtin-infix-scan-hit"] += 1
                continue
        if not claimed(ctx, s, scan): continue
        REL_STATS["claimed:" + ctx.split(":")[0]] += 1
        if alone == "err":
            if res != "err":
                yield dict(case=case, tag=ctx, cases=[pc.case("parse-term", s), case],
                           why="parse_term(%r) is an error but the same text in context `%s` is accepted" % (s, ctx),
                           implementation=dict(alone=alone, in_context=res))
            continue
        t = sx.parse(alone)[1]
        e = expected(ctx, t, s)
        if e is None: continue
        kind, want = e
        if res == "err":
            got = "err"
        else:
            got = sx.parse(res)[1]
        if kind == "query" and got != "err":
            got = zero_ids(got); want = zero_ids(want)
        if not (isinstance(t, list) and t[0] == "a"): _NONTRIV.add(case)
        if got != want:
            REL_STATS["violated:" + ctx.split(":")[0]] += 1
            yield dict(case=case, tag=ctx, cases=[pc.case("parse-term", s), case],
                       why="the text %r is %s on its own but gives %s in context `%s`" % (
                           s, alone, res, ctx),
                       implementation=dict(alone=alone, in_context=res))

def describe(case):
    op, s = pc.uncase(case)
    return "%s(%r)" % (op.replace("-", "_"), s)
