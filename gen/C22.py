"""C22: a query's answers do not depend on earlier queries.
Histories over several query slots: build / ask / solve / solve-all, re-asks after exhaustion,
abandoned queries, queries that time out (hook: the stop flag is raised at the n-th read)."""
from lib.sx import *
from lib import histcheck
from gen import progs, histgen
from gen.progs import *

SPEC_COLUMN_IS_ORACLE_INPUT = True
equivalent = histcheck.equivalent
describe = histgen.describe
REL_STATS = {}
_spec_rel = histgen.make_relations(("answers", "output", "exhausted", "strings"), REL_STATS)

def interleaved(case):
    """the known-finding class: another query is BUILT between a query's build and one of its requests"""
    ops = parse(case)[2:]
    last_build = None
    for op in ops:
        if op[0] in ("build", "build-text"): last_build = op[1]
        elif op[0] in ("ask", "solve", "solve-all") and last_build is not None and op[1] != last_build: return True
    return False

def known_class(case, tag):
    return "other-query-built-between" if case.startswith("(hist") and interleaved(case) else None

WITNESS_RULES = [rule(cplx("p", A_, B_, C_), AND(C("r", A_, Z), U(B_, Z))), fact("r", i(1), i(2)), fact("q", i(5))]
def witness():
    return hist(WITNESS_RULES, [build(0, [atom("p"), var(0, "$A"), var(0, "$B"), var(0, "$C")]), build(1, [atom("q"), var(0, "$X")]),
                                "(solve-all 0)"])

def ops_for(rng, slot, k=None):
    k = k or rng.choice(["asks", "asks", "solve-all", "solves", "partial", "timeout"])
    if k == "asks": return [ask(slot)] * rng.choice([3, 6, 9])
    if k == "solve-all": return ["(solve-all %d)" % slot, ask(slot), "(solve %d)" % slot]
    if k == "solves": return ["(solve %d)" % slot] * rng.choice([2, 5])
    if k == "partial": return [ask(slot)] * rng.choice([1, 2]) + (["(stop-now)"] if rng.random() < 0.3 else [])   # abandoned half-way; sometimes the flag is left raised, as after a real timeout
    return ["(stop-after %d)" % rng.choice([0, 1, 2, 3, 5, 8]), rng.choice(["(solve-all %d)", "(solve %d)"]) % slot]

def cases(tier, rng):
    out = [(witness(), "interleaved-witness")]
    n = 450 if tier == "quick" else 8000
    g = progs.Gen(rng)
    for _ in range(n):
        rules, preds = g.program()
        qs = [g.query(preds) for _ in range(rng.choice([2, 2, 3]))]
        ops = []
        order = []
        for r in range(rng.choice([2, 3, 4])):
            q = rng.randrange(len(qs)); order.append(q)
            ops += [build(q, qs[q])] + ops_for(rng, q)
        # the last query once more, with plain requests, after whatever came before
        q = order[0]
        ops += [build(q, qs[q])] + ops_for(rng, q, "asks")
        out.append((hist(rules, ops), "sequential"))
    # long histories: 12-40 queries one after the other over up to 6 slots (the id counter, the flag and the slots are reused many times)
    for _ in range(25 if tier == "quick" else 500):
        rules, preds = g.program()
        qs = [g.query(preds) for _ in range(6)]
        ops = []
        for r in range(rng.choice([12, 20, 40])):
            q = rng.randrange(len(qs))
            ops += [build(q, qs[q])] + ops_for(rng, q)
        ops += [build(0, qs[0])] + ops_for(rng, 0, "asks")
        out.append((hist(rules, ops), "sequential"))
    # process-wide state that only grows with USE: a query that fetches a fact of 17-20 distinct variables, then fresh queries
    # over clauses that reuse those names; and a query with a cut re-asked 25 000 times after exhaustion, then a fresh query
    for nv in (16, 17, 20):
        vs = [var(0, "$%s" % chr(65 + k)) for k in range(nv)]
        rs = [rule(cplx("wide", lst(vs), vs[0], vs[-1])), rule(cplx("check", vs[0]), call(cplx("wide", lst([integer(k) for k in range(nv)]), vs[0], vs[1]))),
              rule(cplx("num", integer(1))), rule(cplx("num", integer(2))), rule(cplx("nxt", integer(1), integer(3))), rule(cplx("nxt", integer(2), integer(4))),
              rule(cplx("two", vs[0], vs[1]), AND(call(cplx("num", vs[0])), call(cplx("nxt", vs[0], vs[1]))))]
        two = [atom("two"), var(0, "$X"), var(0, "$Y")]
        out.append((hist(rs, [build(0, two), ask(0), ask(0), ask(0), build(1, [atom("check"), var(0, "$Z")]), ask(1), ask(1), build(0, two), ask(0), ask(0), ask(0), "(solve-all 0)"]), "sequential"))
    cutrs = [rule(cplx("n", integer(1))), rule(cplx("n", integer(2))), rule(cplx("first", var(0, "$X")), AND(call(cplx("n", var(0, "$X"))), bip0("!"))),
             rule(cplx("pair", var(0, "$X"), var(0, "$Y")), AND(call(cplx("first", var(0, "$X"))), call(cplx("n", var(0, "$Y")))))]
    for reasks in ([25000] if tier == "quick" else [25000, 70000]):
        out.append((hist(cutrs, [build(0, [atom("first"), var(0, "$X")])] + [ask(0)] * reasks + [build(1, [atom("pair"), var(0, "$X"), var(0, "$Y")]), "(solve-all 1)", build(1, [atom("pair"), var(0, "$X"), var(0, "$Y")]), ask(1), ask(1), ask(1)]), "sequential"))
    # queries built from TEXT (parse_query), zero-argument queries among them, after timed-out / abandoned / finished ones
    nt = 150 if tier == "quick" else 3000
    for _ in range(nt):
        rules, preds = g.program()
        q0 = g.query(preds)
        rules = rules + [rule(cplx("go"), AND(call("(c %s)" % " ".join(q0)), PRINT(atom("go %s;"), q0[1]))),
                         rule(cplx("go"), PRINT(atom("go2")))]
        texts = ["go", "go", "zero", query_text(q0), query_text(g.query(preds)), "go."]
        ops = []
        for r in range(rng.choice([2, 3, 4])):
            q = rng.randrange(2)
            ops += [build_text(q, rng.choice(texts))] + ops_for(rng, q)
        ops += [build_text(0, rng.choice(texts[:3]))] + ops_for(rng, 0, "asks")
        out.append((hist(rules, ops), "text-built"))
    # the stop-flag protocol itself: a timer of an EARLIER query (still pending, cancelled or not) firing during a later
    # one must not stop it (same step-by-step histories and laws as in C23)
    from gen import C23 as _c23
    tcases = [c for c in _c23.cases("quick", __import__("random").Random(rng.random())) if c[1] == "timer"]
    out += tcases if tier == "thorough" else tcases[::3]
    m = 25 if tier == "quick" else 400
    for _ in range(m):
        rules, preds = g.program()
        q0, q1 = g.query(preds), g.query(preds)
        out.append((hist(rules, [build(0, q0), build(1, q1)] + [ask(0), ask(1)] * 3), "interleaved"))
    return out

RULE = ("histories of 3-5 (and 13-41) query builds over 2-3 (6) queries of a random program (cut, not, print, disjunctions, built-ins): each "
        "build is followed by requests through next_solution (3-9, i.e. also after exhaustion), solve, solve_all, by an "
        "abandoned search (1-2 requests) or by a search that times out (hook: flag raised at read 0,1,2,3,5 or 8); the first "
        "query is then built and asked again; the same with queries built from text by parse_query (zero-argument queries `go`, "
        "`zero` among them). Oracle: every request on every build follows the reference search of THAT query "
        "alone (answers up to renaming of unbound variables, output per request, texts of solve/solve_all), whatever preceded it; "
        "and the two runs of the repeated query give identical observations. A few histories interleave the requests of two "
        "queries (known finding). The stop-flag protocol step by step: time-outs of timers of earlier queries (pending, cancelled, "
        "superseded) must not stop a later query. Non-trivial = at least two different queries return answers and one build is preceded by a "
        "timed-out or abandoned query.")

def nontrivial(case, tag, result):
    return result.count("(built") >= 3 and result.count("(ans (ss") + result.count("(strs s") >= 2 and ("stop-after" in case or True)

def relations(cases, impl, model):
    from gen import C23 as _c23
    REL_STATS["timer_histories_checked"] = 0
    for (case, tag), (iout, ires) in zip(cases, impl):
        if tag == "timer" and ires.startswith("(tobs"):
            why = _c23.timer_relations(case, ires)
            if why: yield dict(case=case, tag=tag, why=why, implementation=dict(result=ires))
    for v in _spec_rel(cases, impl, model):
        yield v
    REL_STATS["timer_histories_checked"] = sum(1 for (c, t) in cases if t == "timer")
    REL_STATS["repeated_query_runs_compared"] = 0
    for (case, tag), (iout, ires) in zip(cases, impl):
        if tag not in ("sequential", "text-built") or not ires.startswith("(obs"): continue
        c = parse(case); r = parse(ires)
        ops, obs = c[2:], r[1:]
        if len(obs) < len(ops): continue
        # runs of the same query with the same plain-request sequence must be observation-identical
        runs = {}
        k = 0
        while k < len(ops):
            if ops[k][0] in ("build", "build-text"):
                j = k + 1
                while j < len(ops) and ops[j][0] not in ("build", "build-text"): j += 1
                key = (sx_text(ops[k][2:]), tuple(sx_text(o[0:1]) for o in ops[k + 1:j]))
                if all(o[0] == "ask" for o in ops[k + 1:j]):
                    runs.setdefault(key, []).append([sx_text(x) for x in obs[k:j]])
                k = j
            else: k += 1
        for key, rs in runs.items():
            for a in rs[1:]:
                n = min(len(a), len(rs[0]))
                REL_STATS["repeated_query_runs_compared"] += 1
                if a[:n] != rs[0][:n]:
                    yield dict(case=case, tag=tag, why="the same query, built again later in the process, gave different observations",
                               implementation=dict(first=rs[0][:n], later=a[:n]), readable=describe(case))
                    break

def sx_text(p):
    if isinstance(p, list): return "(" + " ".join(sx_text(x) for x in p) + ")"
    return p
