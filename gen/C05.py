"""C05: an exhausted query stays exhausted.  Histories that keep asking after the first
'no more answers' - through next_solution and through solve - on programs with every kind of
goal (cut, not, print, disjunction, built-ins)."""
from lib.sx import *
from lib import histcheck
from gen import progs, histgen

SPEC_COLUMN_IS_ORACLE_INPUT = True
equivalent = histcheck.equivalent
describe = histgen.describe
REL_STATS = {}
_spec_rel = histgen.make_relations(("exhausted",), REL_STATS)

def cases(tier, rng):
    out = []
    alpha = progs.alphabet()
    out += histgen.small_cases(alpha, 9, rng, 1.0 if tier == "thorough" else 0.35, "small-exhaustive")
    for body in progs.small_bodies(alpha, 2):
        rules = progs.small_program(progs.OR(body, progs.NOT(progs.C("e", progs.X)), progs.AND(progs.CUT, progs.C("n", progs.X))))
        out.append((progs.hist(rules, [progs.build(0, [atom("a"), var(0, "$Q")])] + ["(solve 0)"] * 8 + ["(ask 0)"] * 2), "small-or-solve"))
    # time(..) nodes (first answer only) in first / last clauses, followed by goals that reject the first answers
    from gen.progs import C, U, AND, OR, NOT, FAIL, X, Y, i, bip, rule, fact
    for g in (C("n", X), C("d", X), OR(U(X, i(1)), U(X, i(2))), AND(C("n", X), C("e", X))):
        for h in (bip("greater_than", X, i(1)), C("e", X), U(X, i(2)), FAIL):
            tg = op("time", g)
            for body in (AND(tg, h), AND(C("n", Y), tg, h), OR(AND(tg, h), FAIL), AND(tg, op("time", h)), AND(g, op("time", h)), NOT(AND(tg, h))):
                for rules in ([rule(cplx("a", X), body), fact("a", i(9))], [fact("a", i(9)), rule(cplx("a", X), body)]):
                    out.append((progs.hist(list(progs.LIB) + rules, [progs.build(0, [atom("a"), var(0, "$Q")])] + [progs.ask(0)] * 8), "time-shape"))
    # a disjunction (with printing alternatives) as a NON-last goal of the last clause, every combination failing:
    # once exhausted, a further request must not run the later alternatives again
    P = progs.PRINT(atom("%s;"), X)
    for alts in ([C("n", X), AND(U(X, i(2)), P), AND(U(X, i(3)), P)], [AND(U(X, i(1)), P), AND(U(X, i(2)), P)], [C("e", X), AND(C("n", X), P)],
                 [P, AND(U(X, i(2)), P), FAIL]):
        for h in (FAIL, C("k", X), bip("greater_than", X, i(5)), AND(C("e", Y), FAIL)):
            for rules in ([fact("a", i(9)), rule(cplx("a", X), AND(OR(*alts), h))], [rule(cplx("a", X), AND(OR(*alts), h))],
                          [rule(cplx("a", X), AND(C("n", Y), OR(*alts), h))]):
                out.append((progs.hist(list(progs.LIB) + rules, [progs.build(0, [atom("a"), var(0, "$Q")])] + [progs.ask(0)] * 6), "or-exhausted"))
    n = 500 if tier == "quick" else 10000
    out += histgen.random_cases(rng, n, dict(), nasks_choices=(8, 12, 16), solve_mix=False)
    # large programs (40-clause predicates, chains 30 links deep, up to 60 answers), each asked well beyond its last answer;
    # and a small query asked 60 times after exhaustion
    from gen import C01
    for c, t in C01.large_cases(tier, rng):
        if t == "large": out.append((c.replace("(ask 0))", "(ask 0) (ask 0) (ask 0) (ask 0) (ask 0) (ask 0) (ask 0) (ask 0))"), "large"))
    from gen.progs import fact as _fact
    items = [_fact("item", i(k), atom("v%d" % k)) for k in range(1, 301)] + [_fact("cand", i(k)) for k in range(1, 301)] + [_fact("wanted", i(290)), _fact("wanted", i(299)),
             rule(cplx("pick", X), AND(C("cand", X), C("wanted", X)))]
    for q in ([atom("item"), i(290), var(0, "$V")], [atom("item"), i(256), var(0, "$V")], [atom("item"), i(257), var(0, "$V")], [atom("pick"), var(0, "$P")], [atom("item"), var(0, "$K"), atom("v300")]):
        out.append((progs.hist(items, [progs.build(0, q)] + [progs.ask(0)] * 5), "large"))
        out.append((progs.hist(items, [progs.build(0, q)] + ["(solve 0)"] * 4), "large"))
        # asked with bare next_solution right after ANOTHER query was answered through solve (its timer cancelled)
        out.append((progs.hist(items, [progs.build(1, [atom("wanted"), var(0, "$W")]), progs.build(0, q), "(solve 1)", "(solve 1)"] + [progs.ask(0)] * 4), "large"))
    out.append((progs.hist(list(progs.LIB), [progs.build(0, [atom("n"), var(0, "$Q")])] + [progs.ask(0)] * 64), "asked-64-times"))
    out.append((progs.hist(list(progs.LIB), [progs.build(0, [atom("path"), var(0, "$A"), var(0, "$B")])] + [progs.ask(0)] * 40 + ["(solve 0)"] * 10), "asked-64-times"))
    return out

RULE = ("(0) large programs (predicates of 12-40 clauses, chains 30 links deep, up to 60 answers) asked 8 times beyond their last answer, small queries asked 50-64 times, 300-clause predicates and a conjunction that rejects 289 candidates before its first answer (also asked with next_solution after another query was finished by solve); "
        "(a) bodies of 1-3 goals over a 10-goal alphabet (multi-answer calls, =, >, fail, !, print, not(..)) in a($X) :- BODY. a(9). "
        "asked 9 times (all of them in the thorough tier, 35% in the quick tier); the same under a disjunction with not and "
        "cut through solve (8 times) and next_solution; time(G) (first answer only) for 4 goals G followed by 4 filters in 6 "
        "positions, as first and as last clause, asked 8 times; printing disjunctions as non-last goals whose every combination fails; (b) random programs with cut, not, print, disjunctions and built-ins, "
        "asked 8-16 times. Checked on the implementation itself: after the first request that reports no answer every further "
        "request reports none and writes nothing; the reference search additionally supplies the number of answers. "
        "Non-trivial = at least three requests were made after the first 'no more answers'.")

def nontrivial(case, tag, result):
    k = result.find("(ans none")
    return (k >= 0 and result[k:].count("(ans none") >= 4) or result.count("s78.111.32.109.111.114.101.46") >= 4

def relations(cases, impl, model):
    for v in _spec_rel(cases, impl, model):
        yield v
    REL_STATS["histories_with_requests_after_exhaustion"] = 0
    for (case, tag), (iout, ires) in zip(cases, impl):
        if not ires.startswith("(obs"): continue
        try: r = parse(ires)
        except Exception: continue
        outs = iout.split("\x03")
        done = False; after = 0
        for k, o in enumerate(r[1:]):
            if not isinstance(o, list): break
            if o[0] == "ans":
                if done:
                    after += 1
                    if o[1] != "none" or (k < len(outs) and outs[k] != ""):
                        yield dict(case=case, tag=tag, why="a request after 'no more answers' returned an answer or wrote output",
                                   implementation=dict(output=iout, result=ires[:3000]), readable=describe(case)); break
                elif o[1] == "none": done = True
            elif o[0] == "str":
                txt = unS(o[1])
                if done:
                    after += 1
                    if txt != "No more." or (k < len(outs) and outs[k] != ""):
                        yield dict(case=case, tag=tag, why="solve after 'No more.' reported %r or wrote output" % txt,
                                   implementation=dict(output=iout, result=ires[:3000]), readable=describe(case)); break
                elif txt == "No more.": done = True
        if after: REL_STATS["histories_with_requests_after_exhaustion"] += 1
