"""C16: append concatenates the elements of its arguments.
Cases: (bip append (T1 .. Tn Out) SS)."""
import itertools
from lib.sx import *
from lib import obs, pyspec, refunify
from gen.universe import X, Y, Z

OUT = var(20, "$Out")
T, U, V, W = var(4, "$T"), var(5, "$U"), var(6, "$V"), var(7, "$W")
a, b, c, q = atom("a"), atom("b"), atom("c"), atom("q")

# substitutions: T -> [q], U -> [b | T] (bound tail inside a bound tail), V -> a constant, W -> X -> [c, [d]]
SSS = [
    {},
    {4: lst([q])},
    {4: lst([q]), 5: lst([b], T)},
    {4: lst([q, EMPTY]), 5: lst([b], T), 6: integer(7), 7: X, 1: lst([c, lst([atom("d")])])},
    {4: EMPTY, 6: cplx("f", Y), 7: V},
    {4: U, 5: lst([lst([a])], Z), 3: lst([flt(1.5)])},
    {4: atom("notalist"), 5: Y},
]
def inputs():
    return [a, integer(1), flt(2.5), cplx("f", a, X), EMPTY, lst([a]), lst([a, b]), lst([lst([b, c])]), lst([EMPTY]),
            lst([a, lst([b, c])]), lst([a], T), lst([a, b], U), lst([X], T), lst([a], ANON), lst([a], Z), T, U, V, W, X,
            lst([lst([a], T)]), lst([a], W), fn("add", integer(1), integer(2)),
            lst([a, b, c, q, integer(1), integer(2), a, b, lst([c]), EMPTY, q, a]), lst([a, b, c, q, a, b, c, q, a], T), lst([q] * 17, U)]

def cases(tier, rng):
    out = []
    ins = inputs()
    name = S("append")
    for d in SSS:
        ss = ss_from(d)
        for t in ins:
            out.append(("(bip %s (%s %s) %s)" % (name, t, OUT, ss), "one"))
        for t1, t2 in itertools.product(ins, ins):
            if tier == "thorough" or rng.random() < 0.45:
                out.append(("(bip %s (%s %s %s) %s)" % (name, t1, t2, OUT, ss), "two"))
    n = 2500 if tier == "quick" else 40000
    outs = [OUT, OUT, OUT, lst([a, q]), lst([a], Y), lst([Y, Z]), lst([a, lst([b, c])]), EMPTY, a, ANON,
            lst([a], ANON), lst([Y], Z), lst([a, b, c], Y), lst([Y, Z], ANON), lst([Y], ANON)]
    for _ in range(n):
        d = rng.choice(SSS)
        k = rng.choice([1, 2, 3, 4, 1, 2, 3, 4, 7, 8, 9, 11, 16])
        ts = [rng.choice(ins) for _ in range(k)]
        o = rng.choice(outs)
        out.append(("(bip %s (%s %s) %s)" % (name, " ".join(ts), o, ss_from(d)), "random" if o == OUT else "random-bound-out"))
    from gen.universe import tail_chain
    el = [a, b, c, q, integer(1), lst([a])]
    for ids, last in (([4, 68, 132], None), ([5, 261, 517, 69], lst([c, b])), (list(range(30, 97)), None), (list(range(30, 160)), lst([q])), ([9, 65545, 73], None)):
        l, d = tail_chain(ids, el, last)
        for ts in ([l], [l, lst([a, b])], [a, l], [l, l]):
            out.append(("(bip %s (%s %s) %s)" % (name, " ".join(ts), OUT, ss_from(d)), "random"))
    l300 = lst([integer(k) for k in range(300)])
    for ts in ([l300], [l300, lst([a])], [a, l300, l300]):
        out.append(("(bip %s (%s %s) (ss))" % (name, " ".join(ts), OUT), "random"))
    out.append(("(bip %s (%s) (ss))" % (name, OUT), "malformed"))
    out.append(("(bip %s () (ss))" % name, "malformed"))
    out.append(("(bip %s none (ss))" % name, "malformed"))
    seen, res = set(), []
    for cse in out:
        if cse[0] not in seen: seen.add(cse[0]); res.append(cse)
    return res

RULE = ("append with 1 input (all of 26 inputs, three of them lists of 9-17 elements), 2 inputs (a sample of all pairs; thorough: all) and 1-16 random inputs, under 7 "
        "substitutions that bind tail variables to lists (also to a list whose tail is again bound, to [], to a non-list), "
        "variables to constants and through chains; inputs: atoms, numbers, complex terms, [], nested and empty-list elements, "
        "lists with bound / unbound / $_ tails, bound and unbound variables, a function term. Oracle (python twin of "
        "Spec.SpecLists.Contrib) on the implementation's own result whenever every input has a contribution and the output "
        "argument is a fresh variable: it is bound to the list holding exactly the concatenated contributions and no other "
        "binding changes (also for lists spread over chains of 3-130 bound tail variables, with ids that collide modulo 64 / 256 / 65536); when the output argument is a term (closed and open lists, also with $_ tails, [], an atom, $_), append "
        "succeeds exactly when a reference unifier unifies that term with the concatenation. Non-trivial = some input is a list with a bound tail or has a list-valued element.")

def nontrivial(case, tag, result):
    return ("(v 4 " in case or "(v 5 " in case) and "some" in result

REL_STATS = {}
def relations(cases, impl):
    REL_STATS.clear(); REL_STATS.update(oracle_checks=0, outside_spec=0)
    for (case, tag), (out, res) in zip(cases, impl):
        if tag == "random-bound-out":
            # the output argument is a term or bound already: append must succeed exactly when that term unifies
            # with the list of the concatenated contributions (reference unifier, success/failure only)
            cs = parse(case)
            ins, o = cs[2][:-1], cs[2][-1]
            ent0 = [None if e == "-" else e for e in cs[3][1:]]
            contribs = [pyspec.contrib(ent0, t) for t in ins]
            if any(x is None for x in contribs) or any(isinstance(t, list) and t and t[0] == "fn" for t in ins): continue
            exp = pyspec.make_list([y for x in contribs for y in x])
            try:
                sref = {}
                okp = all(refunify.runify(("v", i), refunify.to_r(e), sref) == refunify.YES for i, e in enumerate(ent0) if e is not None)
                if not okp: continue
                r = refunify.runify(refunify.to_r(o), refunify.to_r(exp), sref)
            except refunify.Bad:
                continue
            if r == refunify.OCCURS: continue
            REL_STATS["bound_out_checks"] = REL_STATS.get("bound_out_checks", 0) + 1
            p = obs.parse_result(res)
            if p[0] not in ("some", "none") or (p[0] == "some") != (r == refunify.YES):
                yield dict(case=case, tag=tag, implementation=dict(result=res),
                           why="output argument given: append must %s, since the given term %s with the list of the concatenated contributions"
                               % (("succeed", "unifies") if r == refunify.YES else ("fail", "does not unify")),
                           specification=dict(expected_output=pyspec.text(exp)))
            continue
        if tag not in ("one", "two", "random"): continue
        cs = parse(case)
        ins = cs[2][:-1]
        ent0 = [None if e == "-" else e for e in cs[3][1:]]
        contribs = [pyspec.contrib(ent0, t) for t in ins]
        if any(x is None for x in contribs) or any(isinstance(t, list) and t and t[0] == "fn" for t in ins):
            REL_STATS["outside_spec"] += 1; continue
        exp = [y for x in contribs for y in x]
        REL_STATS["oracle_checks"] += 1
        p = obs.parse_result(res)
        why = None
        if p[0] != "some": why = "append failed / did not finish although every input has a contribution"
        else:
            ent = p[1]
            got = ent[20] if len(ent) > 20 else None
            if got != pyspec.make_list(exp): why = "the output is not the list of the concatenated contributions"
            elif {k: e for k, e in enumerate(ent) if e is not None and k != 20} != {k: e for k, e in enumerate(ent0) if e is not None}:
                why = "append changed a binding other than the output argument's"
        if why:
            yield dict(case=case, tag=tag, why=why, implementation=dict(result=res),
                       specification=dict(expected_output=pyspec.text(pyspec.make_list(exp))))
