#!/bin/bash
# MANIFEST.setup_cmd: build everything from files on disk, offline.
set -e
cd "$(dirname "$0")"
export CARGO_NET_OFFLINE=true
mkdir -p .cache replays evidence
( cd coq && coq_makefile -f _CoqProject -o Makefile >/dev/null && timeout 3400 make -j16 2>&1 | grep -v '^COQ\|^CoqMakefile' | tail -30; exit ${PIPESTATUS[0]} )
bash build_model.sh
cp /repo/Cargo.lock harness/Cargo.lock 2>/dev/null || true
( cd harness && CARGO_TARGET_DIR=/verif/.cache/harness-target RUSTFLAGS="--cfg suiron_verif --check-cfg cfg(suiron_verif)" cargo build --offline --quiet 2>&1 | tail -5 )
echo "setup done"
